// A small driver around the real ProtocolState: submits operations with counting result handlers, moves bytes between the
// engine and a scripted broker using the crate's own Encoder/Decoder, and evaluates the executable form of wf() after every step.
use crate::alias::*;
use crate::client::*;
use crate::client::config::*;
use crate::decode::*;
use crate::encode::*;
use crate::error::*;
use crate::mqtt::*;
use crate::protocol::*;

use std::collections::{HashMap, HashSet, VecDeque};
use std::sync::{Arc, Mutex};
use std::time::{Duration, Instant};

#[derive(Copy, Clone, Debug, PartialEq, Eq, Hash, PartialOrd, Ord)]
pub(crate) enum Kind { Pub0, Pub1, Pub2, Sub, Unsub }
pub(crate) const KINDS: [Kind; 5] = [Kind::Pub0, Kind::Pub1, Kind::Pub2, Kind::Sub, Kind::Unsub];

#[derive(Clone, Debug, PartialEq, Eq)]
pub(crate) enum Outcome { Ok(String), Err(String) }

pub(crate) fn err_name(e: &GneissError) -> String {
    let s = format!("{:?}", e);
    s.split(|c| c == '(' || c == ' ' || c == '{').next().unwrap_or("").to_string()
}

#[derive(Clone)]
pub(crate) struct Cfg {
    pub policy: OfflineQueuePolicy,
    pub drain: PostReconnectQueueDrainPolicy,
    pub mode: ProtocolMode,
    pub retries: Option<u32>,
    pub keep_alive: Option<u16>,
    pub ack_timeout: Option<Duration>,
}

pub(crate) struct H {
    pub ps: ProtocolState,
    pub cfg: Cfg,
    pub now: Instant,
    pub results: Arc<Mutex<Vec<(u64, Outcome)>>>,   // (tag, outcome) in callback order
    pub submitted: Vec<(u64, Kind)>,                // tag -> kind
    pub events: VecDeque<PacketEvent>,
    pub sent: Vec<Box<MqttPacket>>,                 // every packet the engine put on the wire, decoded again
    pub sent_this_connection: Vec<Box<MqttPacket>>,
    pub out_decoder: Decoder,
    pub next_tag: u64,
    pub log: Vec<String>,
    pub version: ProtocolVersion,
    pub t0: Instant,
    pub payload_len: usize,
}

impl H {
    pub fn new(cfg: Cfg) -> H { H::new_with_resolver(cfg, None) }

    pub fn new_with_resolver(cfg: Cfg, resolver: Option<Box<dyn OutboundAliasResolver + Send>>) -> H {
        let now = Instant::now();
        let config = ProtocolStateConfig {
            connect_options: ConnectOptions::builder().with_client_id("verif").with_keep_alive_interval_seconds(cfg.keep_alive).build(),
            base_timestamp: now,
            offline_queue_policy: cfg.policy,
            ping_timeout: Duration::from_millis(30000),
            outbound_alias_resolver: resolver,
            protocol_mode: cfg.mode,
            post_reconnect_queue_drain_policy: cfg.drain,
            max_interrupted_retries: cfg.retries,
        };
        let version = convert_protocol_mode_to_protocol_version(cfg.mode);
        H { ps: ProtocolState::new(config), cfg, now, results: Arc::new(Mutex::new(Vec::new())), submitted: Vec::new(), events: VecDeque::new(),
            sent: Vec::new(), sent_this_connection: Vec::new(), out_decoder: Decoder::new(), next_tag: 1, log: Vec::new(), version, t0: now, payload_len: 3 }
    }

    pub fn advance(&mut self, ms: u64) { self.now += Duration::from_millis(ms); }
    pub fn cfg_base(&self) -> Instant { self.t0 }

    fn net(&mut self, event: NetworkEvent) -> GneissResult<()> {
        let mut ctx = NetworkEventContext { event, current_time: self.now, packet_events: &mut self.events };
        self.ps.handle_network_event(&mut ctx)
    }

    pub fn open(&mut self) -> GneissResult<()> {
        self.log.push("open".into());
        self.out_decoder = Decoder::new();
        self.sent_this_connection.clear();
        let t = self.now + Duration::from_secs(30);
        self.net(NetworkEvent::ConnectionOpened(ConnectionOpenedContext { establishment_timeout: t }))
    }

    pub fn close(&mut self) -> GneissResult<()> { self.log.push("close".into()); self.net(NetworkEvent::ConnectionClosed) }
    pub fn write_completion(&mut self) -> GneissResult<()> { self.log.push("wc".into()); self.net(NetworkEvent::WriteCompletion) }

    /// raw bytes from the "socket", one read
    pub fn feed(&mut self, bytes: &[u8]) -> GneissResult<()> { self.net(NetworkEvent::IncomingData(bytes)) }

    /// encode a broker packet with the crate's Encoder and feed it to the engine in `chunk`-byte reads
    pub fn deliver(&mut self, packet: MqttPacket, chunk: usize) -> GneissResult<()> {
        self.log.push(format!("deliver {}", crate::mqtt::utils::mqtt_packet_to_str(&packet)));
        let mut enc = Encoder::new();
        let ctx = EncodingContext { outbound_alias_resolution: OutboundAliasResolution::default(), protocol_version: self.version };
        enc.reset(&packet, &ctx).unwrap();
        let mut bytes: Vec<u8> = Vec::with_capacity(65536);
        loop { if enc.encode(&packet, &mut bytes).unwrap() == EncodeResult::Complete { break; } }
        let mut i = 0;
        while i < bytes.len() {
            let j = usize::min(bytes.len(), i + chunk.max(1));
            let slice: Vec<u8> = bytes[i..j].to_vec();
            self.net(NetworkEvent::IncomingData(&slice))?;
            i = j;
        }
        Ok(())
    }

    /// one service() call with an output buffer of `capacity` bytes; returns the packets completed on the wire by it
    pub fn service(&mut self, capacity: usize) -> GneissResult<usize> {
        self.log.push(format!("service {}", capacity));
        let mut buf: Vec<u8> = Vec::with_capacity(capacity);
        let r = { let mut ctx = ServiceContext { to_socket: &mut buf, current_time: self.now }; self.ps.service(&mut ctx) };
        let n = buf.len();
        assert!(buf.len() <= capacity, "engine grew the output buffer");
        let mut decoded = VecDeque::new();
        {
            let mut dctx = DecodingContext { maximum_packet_size: MAXIMUM_VARIABLE_LENGTH_INTEGER as u32, protocol_version: self.version, decoded_packets: &mut decoded };
            self.out_decoder.decode_bytes(&buf, &mut dctx).expect("engine produced bytes the crate's own decoder rejects");
        }
        for p in decoded { self.sent.push(p.clone()); self.sent_this_connection.push(p); }
        r.map(|_| n)
    }

    pub fn submit(&mut self, kind: Kind) -> u64 { let t = self.cfg.ack_timeout; self.submit_with_timeout(kind, t) }

    pub fn submit_sized(&mut self, kind: Kind, payload: usize) -> u64 { self.payload_len = payload; let t = self.cfg.ack_timeout; let r = self.submit_with_timeout(kind, t); self.payload_len = 3; r }

    /// publish on an explicit topic (the tag is still recoverable from the results list)
    pub fn submit_publish(&mut self, topic: &str, qos: QualityOfService, payload: usize) -> u64 { self.submit_publish_with_alias(topic, qos, payload, None) }
    pub fn submit_publish_with_alias(&mut self, topic: &str, qos: QualityOfService, payload: usize, topic_alias: Option<u16>) -> u64 {
        let tag = self.next_tag; self.next_tag += 1;
        self.log.push(format!("publish {} {:?} {}B #{}", topic, qos, payload, tag));
        let results = self.results.clone();
        let packet = Box::new(MqttPacket::Publish(PublishPacket { topic: topic.to_string(), qos, payload: Some(vec![7u8; payload]), topic_alias, ..Default::default() }));
        let handler: ResponseHandler<PublishResult> = Box::new(move |r: PublishResult| {
            let o = match r { Ok(_) => Outcome::Ok("published".into()), Err(e) => Outcome::Err(err_name(&e)) };
            results.lock().unwrap().push((tag, o)); Ok(()) });
        let event = UserEvent::Publish(packet, PublishOptionsInternal { options: PublishOptions::builder().build(), response_handler: Some(handler) });
        self.ps.handle_user_event(UserEventContext { event, current_time: self.now });
        tag
    }

    pub fn submit_with_timeout(&mut self, kind: Kind, ack_timeout: Option<Duration>) -> u64 {
        let tag = self.next_tag; self.next_tag += 1;
        self.log.push(format!("submit {:?} #{}", kind, tag));
        self.submitted.push((tag, kind));
        let results = self.results.clone();
        let topic = format!("t/{}", tag);
        let event = match kind {
            Kind::Pub0 | Kind::Pub1 | Kind::Pub2 => {
                let qos = match kind { Kind::Pub0 => QualityOfService::AtMostOnce, Kind::Pub1 => QualityOfService::AtLeastOnce, _ => QualityOfService::ExactlyOnce };
                let packet = Box::new(MqttPacket::Publish(PublishPacket { topic, qos, payload: Some(vec![tag as u8; self.payload_len]), ..Default::default() }));
                let mut options = PublishOptions::builder();
                if let Some(t) = ack_timeout { options = options.with_ack_timeout(t); }
                let handler: ResponseHandler<PublishResult> = Box::new(move |r: PublishResult| {
                    let o = match r { Ok(PublishResponse::Qos0) => Outcome::Ok("Qos0".into()), Ok(PublishResponse::Qos1(p)) => Outcome::Ok(format!("Puback:{}", p.packet_id)),
                        Ok(PublishResponse::Qos2(Qos2Response::Pubcomp(p))) => Outcome::Ok(format!("Pubcomp:{}", p.packet_id)),
                        Ok(PublishResponse::Qos2(Qos2Response::Pubrec(p))) => Outcome::Ok(format!("Pubrec:{}", p.packet_id)), Err(e) => Outcome::Err(err_name(&e)) };
                    results.lock().unwrap().push((tag, o)); Ok(()) });
                UserEvent::Publish(packet, PublishOptionsInternal { options: options.build(), response_handler: Some(handler) })
            }
            Kind::Sub => {
                let packet = Box::new(MqttPacket::Subscribe(SubscribePacket { subscriptions: vec![Subscription { topic_filter: topic, qos: QualityOfService::AtLeastOnce, ..Default::default() }], ..Default::default() }));
                let mut options = SubscribeOptions::builder();
                if let Some(t) = ack_timeout { options = options.with_ack_timeout(t); }
                let handler: ResponseHandler<SubscribeResult> = Box::new(move |r: SubscribeResult| {
                    let o = match r { Ok(p) => Outcome::Ok(format!("Suback:{}:{}", p.packet_id, p.reason_codes.len())), Err(e) => Outcome::Err(err_name(&e)) };
                    results.lock().unwrap().push((tag, o)); Ok(()) });
                UserEvent::Subscribe(packet, SubscribeOptionsInternal { options: options.build(), response_handler: Some(handler) })
            }
            Kind::Unsub => {
                let packet = Box::new(MqttPacket::Unsubscribe(UnsubscribePacket { topic_filters: vec![topic], ..Default::default() }));
                let mut options = UnsubscribeOptions::builder();
                if let Some(t) = ack_timeout { options = options.with_ack_timeout(t); }
                let handler: ResponseHandler<UnsubscribeResult> = Box::new(move |r: UnsubscribeResult| {
                    let o = match r { Ok(p) => Outcome::Ok(format!("Unsuback:{}:{}", p.packet_id, p.reason_codes.len())), Err(e) => Outcome::Err(err_name(&e)) };
                    results.lock().unwrap().push((tag, o)); Ok(()) });
                UserEvent::Unsubscribe(packet, UnsubscribeOptionsInternal { options: options.build(), response_handler: Some(handler) })
            }
        };
        self.ps.handle_user_event(UserEventContext { event, current_time: self.now });
        tag
    }

    /// A-HANDSHAKE: the three preconditions under which E-V verifies apply_session_present_to_connection / handle_connack
    /// (DESIGN.md 6); evaluated on the real engine every time the harness delivers a CONNACK in state PendingConnack
    pub fn check_connack_ready(&self) -> Result<(), String> {
        let s = &self.ps;
        if s.state != ProtocolStateType::PendingConnack { return Ok(()); }
        let connect_flushed = !s.high_priority_operation_queue.iter().chain(s.pending_write_completion_operations.iter()).chain(s.current_operation.iter())
            .any(|id| s.operations.get(id).map(|op| matches!(&*op.packet, MqttPacket::Connect(_))).unwrap_or(false));
        if !connect_flushed { return Ok(()); }          // the engine refuses such a CONNACK (F-CONNACK-EARLY); nothing to assume
        if !s.high_priority_operation_queue.is_empty() || !s.pending_publish_operations.is_empty() || !s.pending_non_publish_operations.is_empty()
            || !s.operation_ack_timeouts.is_empty() || !s.pending_write_completion_operations.is_empty() { return Err("A-HANDSHAKE: handshake_quiet does not hold at CONNACK".into()); }
        for id in s.resubmit_operation_queue.iter() {
            if let Some(op) = s.operations.get(id) { if !matches!(&*op.packet, MqttPacket::Publish(_)) { return Err(format!("A-HANDSHAKE: non-publish operation {} in the retransmission queue", id)); } }
        }
        for (k, op) in s.operations.iter() {
            if op_packet_id(op).is_some() && !s.resubmit_operation_queue.contains(k) && !s.user_operation_queue.contains(k) {
                return Err(format!("A-HANDSHAKE: operation {} holds packet id {:?} but is in neither the retransmission nor the user queue", k, op_packet_id(op)));
            }
        }
        Ok(())
    }

    pub fn connack(&mut self, session_present: bool, receive_maximum: Option<u16>) -> GneissResult<()> {
        if let Err(e) = self.check_connack_ready() { panic!("{}", e); }
        self.deliver(MqttPacket::Connack(ConnackPacket { session_present, receive_maximum, ..Default::default() }), 1 << 20)
    }

    /// open + CONNECT flushed + CONNACK
    pub fn connect(&mut self, session_present: bool, receive_maximum: Option<u16>) -> GneissResult<()> {
        self.open()?;
        self.service(4096)?;
        self.write_completion()?;
        self.connack(session_present, receive_maximum)
    }

    /// the acknowledgement a broker owes for a packet the engine sent (None: nothing owed)
    pub fn broker_reply(&self, p: &MqttPacket) -> Option<MqttPacket> {
        match p {
            MqttPacket::Publish(x) if x.qos == QualityOfService::AtLeastOnce => Some(MqttPacket::Puback(PubackPacket { packet_id: x.packet_id, ..Default::default() })),
            MqttPacket::Publish(x) if x.qos == QualityOfService::ExactlyOnce => Some(MqttPacket::Pubrec(PubrecPacket { packet_id: x.packet_id, ..Default::default() })),
            MqttPacket::Pubrel(x) => Some(MqttPacket::Pubcomp(PubcompPacket { packet_id: x.packet_id, ..Default::default() })),
            MqttPacket::Subscribe(x) => Some(MqttPacket::Suback(SubackPacket { packet_id: x.packet_id, reason_codes: vec![SubackReasonCode::GrantedQos1; x.subscriptions.len()], ..Default::default() })),
            MqttPacket::Unsubscribe(x) => Some(MqttPacket::Unsuback(UnsubackPacket { packet_id: x.packet_id, reason_codes: vec![UnsubackReasonCode::Success; x.topic_filters.len()], ..Default::default() })),
            MqttPacket::Pingreq(_) => Some(MqttPacket::Pingresp(PingrespPacket {})),
            _ => None,
        }
    }

    pub fn result_count(&self, tag: u64) -> usize { self.results.lock().unwrap().iter().filter(|(t, _)| *t == tag).count() }
    pub fn result_of(&self, tag: u64) -> Option<Outcome> { self.results.lock().unwrap().iter().find(|(t, _)| *t == tag).map(|(_, o)| o.clone()) }

    // ------------------------------------------------------------------ executable wf() (W0..W14 of DESIGN.md 2)
    pub fn check_wf(&self) -> Result<(), String> {
        let s = &self.ps;
        if s.next_packet_id == 0 { return Err("W1 next_packet_id == 0".into()); }
        for (k, op) in s.operations.iter() {
            if op_id(op) != *k || *k == 0 || *k >= s.next_operation_id { return Err(format!("W0 key/id mismatch for {}", k)); }
            let (takes, field) = match &*op.packet {
                MqttPacket::Subscribe(x) => (true, x.packet_id), MqttPacket::Unsubscribe(x) => (true, x.packet_id),
                MqttPacket::Publish(x) => (x.qos != QualityOfService::AtMostOnce, x.packet_id), _ => (false, 0) };
            if let Some(p) = op_packet_id(op) {
                if p == 0 || !takes || field != p { return Err(format!("W4 op {} bound to {} but packet field {} takes={}", k, p, field, takes)); }
                if s.allocated_packet_ids.get(&p) != Some(k) { return Err(format!("W2 op {} bound to {} but allocated table says {:?}", k, p, s.allocated_packet_ids.get(&p))); }
            }
            if op.slow_start_ack_value > 1 { return Err(format!("W9 slow start value {}", op.slow_start_ack_value)); }
            if let Some(pr) = &op.qos2_pubrel {
                let ok = matches!(&*op.packet, MqttPacket::Publish(x) if x.qos == QualityOfService::ExactlyOnce) && matches!(&**pr, MqttPacket::Pubrel(r) if Some(r.packet_id) == op_packet_id(op));
                if !ok { return Err(format!("W8 pubrel on op {} inconsistent", k)); }
            }
        }
        for (p, k) in s.allocated_packet_ids.iter() {
            if *p == 0 { return Err("W2 id 0 allocated".into()); }
            match s.operations.get(k) { Some(op) if op_packet_id(op) == Some(*p) => {}, _ => return Err(format!("W2 allocated {} -> {} without matching op", p, k)) }
        }
        for (p, k) in s.pending_publish_operations.iter() {
            match s.operations.get(k) { Some(op) if op_packet_id(op) == Some(*p) && matches!(&*op.packet, MqttPacket::Publish(x) if x.qos != QualityOfService::AtMostOnce) => {}, _ => return Err(format!("W3 pending publish {} -> {}", p, k)) }
        }
        for (p, k) in s.pending_non_publish_operations.iter() {
            match s.operations.get(k) { Some(op) if op_packet_id(op) == Some(*p) && matches!(&*op.packet, MqttPacket::Subscribe(_) | MqttPacket::Unsubscribe(_)) => {}, _ => return Err(format!("W3 pending non-publish {} -> {}", p, k)) }
        }
        if s.config.post_reconnect_queue_drain_policy == PostReconnectQueueDrainPolicy::OneAtATime && s.state == ProtocolStateType::Connected {
            let n = s.operations.values().filter(|o| o.slow_start_ack_value != 0).count();
            if n != s.slow_start_ack_count as usize { return Err(format!("W9 slow_start_ack_count {} != contributing operations {}", s.slow_start_ack_count, n)); }
        }
        if (s.state == ProtocolStateType::Connected || s.state == ProtocolStateType::PendingDisconnect) && s.current_settings.is_none() { return Err("W10 no settings while connected".into()); }
        if s.state == ProtocolStateType::PendingConnack && s.connack_timeout_timepoint.is_none() { return Err("W11 no CONNACK deadline".into()); }
        if s.state == ProtocolStateType::PendingDisconnect && s.current_operation.is_some() { return Err("W13 current operation in PendingDisconnect".into()); }
        for id in s.pending_write_completion_operations.iter() {
            if *id >= s.next_operation_id { return Err(format!("W14 unknown id {} awaits a write completion", id)); }
            if let Some(op) = s.operations.get(id) {
                let takes = match &*op.packet { MqttPacket::Subscribe(_) | MqttPacket::Unsubscribe(_) => true, MqttPacket::Publish(x) => x.qos != QualityOfService::AtMostOnce, _ => false };
                if takes { return Err(format!("W14 operation {} awaits a write completion but completes only with a response packet", id)); }
            }
        }
        self.check_located()?;
        if s.state == ProtocolStateType::PendingConnack {
            for id in s.high_priority_operation_queue.iter() {
                if let Some(op) = s.operations.get(id) { if !matches!(&*op.packet, MqttPacket::Connect(_)) { return Err(format!("W7 non-CONNECT op {} in high-priority queue before CONNACK", id)); } }
            }
        }
        Ok(())
    }

    // ------------------------------------------------------------------ executable H1-H6 ("where things are", DESIGN.md 2) - the entry-point
    // invariant the E-V proofs of session handling rest on; evaluated here after every step as an independent cross-check
    pub fn check_located(&self) -> Result<(), String> {
        let s = &self.ps;
        let is_connect = |id: &u64| s.operations.get(id).map(|op| matches!(&*op.packet, MqttPacket::Connect(_))).unwrap_or(false);
        for id in s.resubmit_operation_queue.iter() {
            if *id >= s.next_operation_id { return Err(format!("H1 unknown id {} in the retransmission queue", id)); }
            if let Some(op) = s.operations.get(id) { if !matches!(&*op.packet, MqttPacket::Publish(_)) { return Err(format!("H1 operation {} in the retransmission queue is not a publish", id)); } }
        }
        for (k, op) in s.operations.iter() {
            if let Some(p) = op_packet_id(op) {
                let located = s.current_operation == Some(*k) || s.pending_publish_operations.contains_key(&p) || s.pending_non_publish_operations.contains_key(&p)
                    || s.resubmit_operation_queue.contains(k) || s.user_operation_queue.contains(k);
                if !located { return Err(format!("H2 operation {} holds packet id {} but is neither being written, in flight, nor queued", k, p)); }
            }
            if let (Some(_), MqttPacket::Publish(publish)) = (&op.qos2_pubrel, &*op.packet) {
                if !publish.duplicate { let inflight = op_packet_id(op).map(|p| s.pending_publish_operations.contains_key(&p) || s.pending_non_publish_operations.contains_key(&p)).unwrap_or(false);
                    if !inflight { return Err(format!("H6 operation {} has its PUBREL, DUP=0, but is not in flight", k)); } }
            }
        }
        let quiet = s.state == ProtocolStateType::Disconnected || s.state == ProtocolStateType::PendingConnack;
        if quiet && (!s.pending_publish_operations.is_empty() || !s.pending_non_publish_operations.is_empty() || !s.operation_ack_timeouts.is_empty() || s.current_operation_ack_timeout_elapsed) {
            return Err("H3 something in flight / a timeout armed without an established connection".into()); }
        if s.state == ProtocolStateType::Disconnected && (!s.high_priority_operation_queue.is_empty() || !s.pending_write_completion_operations.is_empty() || s.current_operation.is_some()) {
            return Err("H4 something queued for writing / half written / unflushed while disconnected".into()); }
        if s.state == ProtocolStateType::PendingConnack {
            let n = s.high_priority_operation_queue.len() + s.pending_write_completion_operations.len() + if s.current_operation.is_some() { 1 } else { 0 };
            let all_connect = s.high_priority_operation_queue.iter().all(is_connect) && s.pending_write_completion_operations.iter().all(is_connect) && s.current_operation.iter().all(is_connect);
            if n > 1 || !all_connect { return Err(format!("H5 during the handshake {} things are written/half written/unflushed or one of them is not the CONNECT", n)); }
        }
        Ok(())
    }

    pub fn cur_ok(&self) -> bool { match self.ps.current_operation { Some(id) => self.ps.operations.contains_key(&id), None => true } }
}

// private fields of ClientOperation are reachable from here only through the packet; read id / packet_id via Debug-free accessors
pub(crate) fn op_id(op: &ClientOperation) -> u64 { op.verif_id() }
pub(crate) fn op_packet_id(op: &ClientOperation) -> Option<u16> { op.verif_packet_id() }
