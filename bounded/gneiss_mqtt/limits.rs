// E-B: the server's announced limits hold on the wire when topic aliasing is in use (C16 maximum packet size at send time, C17
// alias reconstruction at engine level, C02 "x every alias-resolution outcome").  The engine is run with the real LRU resolver;
// a second instance of the same resolver, fed the same topic sequence, says which alias outcome each publish gets, so that the
// exact wire size is known independently of service_queue_aux's wiring of resolution -> validation -> encoding.
use super::harness::*;
use crate::alias::*;
use crate::client::config::*;
use crate::encode::*;
use crate::mqtt::*;
use std::collections::HashMap;

fn wire_size(packet: &MqttPacket, resolution: OutboundAliasResolution) -> usize {
    let mut enc = Encoder::new();
    enc.reset(packet, &EncodingContext { outbound_alias_resolution: resolution, protocol_version: ProtocolVersion::Mqtt5 }).unwrap();
    let mut bytes = Vec::with_capacity(1 << 16);
    while enc.encode(packet, &mut bytes).unwrap() != EncodeResult::Complete {}
    bytes.len()
}

fn run(alias_max: u16, max_packet: Option<u32>, seq: &[(usize, QualityOfService, usize)], topics: &[&str]) -> Result<(), String> {
    let cfg = Cfg { policy: OfflineQueuePolicy::PreserveAll, drain: PostReconnectQueueDrainPolicy::None, mode: ProtocolMode::Mqtt5, retries: None, keep_alive: None, ack_timeout: None };
    let factory = OutboundAliasResolverFactory::new_lru_factory(4);
    let mut h = H::new_with_resolver(cfg, Some((factory)()));
    let mut shadow = (factory)();
    h.open().map_err(|e| format!("{:?}", e))?; h.service(4096).unwrap(); h.write_completion().unwrap();
    h.deliver(MqttPacket::Connack(ConnackPacket { topic_alias_maximum: Some(alias_max), maximum_packet_size: max_packet, ..Default::default() }), 1 << 20).map_err(|e| format!("connack {:?}", e))?;
    shadow.reset_for_new_connection(alias_max);
    let mut server: HashMap<u16, String> = HashMap::new();
    for (i, (t, qos, payload)) in seq.iter().enumerate() {
        let topic = topics[*t];
        let sent_before = h.sent_this_connection.len();
        let tag = h.submit_publish(topic, *qos, *payload);
        h.service(4096).map_err(|e| format!("service {:?}", e))?;
        if h.ps.pending_write_completion { h.write_completion().map_err(|e| format!("wc {:?}", e))?; }
        // what this publish looks like on the wire according to the resolver's own verdict
        let resolution = shadow.resolve_and_apply_topic_alias(&None, topic);
        let logical = MqttPacket::Publish(PublishPacket { topic: topic.to_string(), qos: *qos, payload: Some(vec![7u8; *payload]), packet_id: if *qos == QualityOfService::AtMostOnce { 0 } else { 1 }, ..Default::default() });
        let expected_size = wire_size(&logical, resolution);
        let fits = max_packet.map(|m| expected_size <= m as usize).unwrap_or(true);
        let new_packets: Vec<&Box<MqttPacket>> = h.sent_this_connection[sent_before..].iter().collect();
        let published: Vec<&PublishPacket> = new_packets.iter().filter_map(|p| if let MqttPacket::Publish(x) = &***p { Some(x) } else { None }).collect();
        match (fits, published.len()) {
            (true, 1) => {}
            (true, 0) => return Err(format!("step {}: a {}-byte PUBLISH (limit {:?}) was not sent: result {:?}", i, expected_size, max_packet, h.result_of(tag))),
            (false, 0) => {
                if !matches!(h.result_of(tag), Some(Outcome::Err(ref e)) if e == "PacketValidationFailure") { return Err(format!("step {}: oversize publish neither sent nor failed with a validation error: {:?}", i, h.result_of(tag))); }
                // a binding that never reached the server must not be relied on later: the engine forgets its bindings, so does the model
                if resolution.alias.is_some() && !resolution.skip_topic { shadow.reset_for_new_connection(alias_max); }
            }
            (false, _) => return Err(format!("step {}: a {}-byte PUBLISH was written although the server announced a maximum packet size of {:?}", i, expected_size, max_packet)),
            (_, n) => return Err(format!("step {}: {} PUBLISH packets for one operation", i, n)),
        }
        for p in published {
            // C17 at engine level: what the server reconstructs is the application's topic; alias within 1..=maximum
            if let Some(a) = p.topic_alias { if a == 0 || a > alias_max { return Err(format!("step {}: alias {} outside 1..={}", i, a, alias_max)); } }
            let seen = if p.topic.is_empty() { match p.topic_alias.and_then(|a| server.get(&a)) { Some(s) => s.clone(), None => return Err(format!("step {}: empty topic with alias {:?} the server does not know", i, p.topic_alias)) } }
                       else { if let Some(a) = p.topic_alias { server.insert(a, p.topic.clone()); } p.topic.clone() };
            if seen != topic { return Err(format!("step {}: the server reconstructs topic {:?}, the application published to {:?}", i, seen, topic)); }
        }
        if *qos != QualityOfService::AtMostOnce && fits {
            let pid = match new_packets.iter().find_map(|p| if let MqttPacket::Publish(x) = &***p { Some(x.packet_id) } else { None }) { Some(p) => p, None => 0 };
            h.deliver(MqttPacket::Puback(PubackPacket { packet_id: pid, ..Default::default() }), 64).map_err(|e| format!("puback {:?}", e))?;
        }
        h.check_wf()?;
    }
    Ok(())
}

#[test]
fn server_limits_hold_on_the_wire_with_aliases() {
    let thorough = super::tier_thorough();
    let topics = ["tele/a", "tele/b", "tele/c"];
    // payload sizes chosen so that the encoded PUBLISH straddles the limit of 40 bytes with and without topic / alias property
    let payloads = [20usize, 24, 26, 27, 28, 29, 30, 31, 33];
    let depth = if thorough { 4 } else { 3 };
    let mut seqs: Vec<Vec<(usize, QualityOfService, usize)>> = vec![vec![]];
    let mut cases = 0u64; let mut fails: Vec<String> = Vec::new();
    for level in 0..depth {
        let mut next = Vec::new();
        for s in &seqs { for t in 0..topics.len() { for pl in payloads { if level > 0 && !thorough && pl % 2 == 1 && t == 2 { continue; }
            let qos = if (t + pl) % 2 == 0 { QualityOfService::AtMostOnce } else { QualityOfService::AtLeastOnce };
            let mut n = s.clone(); n.push((t, qos, pl)); next.push(n); } } }
        seqs = next;
    }
    for alias_max in [0u16, 1, 2, 4] { for max_packet in [None, Some(40u32)] {
        for s in seqs.iter() {
            cases += 1;
            if let Err(e) = run(alias_max, max_packet, s, &topics) { if fails.len() < 20 { fails.push(format!("alias_max={} max_packet={:?} seq={:?} :: {}", alias_max, max_packet, s, e)); } }
        }
    } }
    println!("BOUNDED server_limits_hold_on_the_wire_with_aliases cases={} bound=publish sequences of length {} over 3 topics x 9 payload sizes around the limit x topic alias maximum {{0,1,2,4}} x maximum packet size {{none,40}}, LRU(4) resolver", cases, depth);
    for f in &fails { println!("BOUNDED-FAIL server_limits_hold_on_the_wire_with_aliases {}", f); }
    assert!(fails.is_empty());
}

/// C17 across connections: "bindings never survive a reconnect" and "alias within the server's Topic Alias Maximum" - where an ABSENT
/// Topic Alias Maximum in CONNACK means 0 (OASIS 3.2.2.3.8). Two connections; the second CONNACK announces {absent, 0, 1, 2}; the
/// server-side table is rebuilt from the wire of each connection only.
#[test]
fn outbound_aliases_never_survive_a_reconnect() {
    let topics = ["tele/a", "tele/b"];
    let mut cases = 0u64; let mut fails: Vec<String> = Vec::new();
    for first_max in [1u16, 2, 4] { for second_max in [None, Some(0u16), Some(1), Some(2)] { for resolver in 0..2u8 { for session in [false, true] {
        for seq1 in [vec![0usize], vec![0, 1], vec![0, 0, 1]] { for seq2 in [vec![0usize], vec![1, 0], vec![0, 1, 0]] {
            cases += 1;
            let r = (|| -> Result<(), String> {
                let cfg = Cfg { policy: OfflineQueuePolicy::PreserveAll, drain: PostReconnectQueueDrainPolicy::None, mode: ProtocolMode::Mqtt5, retries: None, keep_alive: None, ack_timeout: None };
                let factory = if resolver == 0 { OutboundAliasResolverFactory::new_lru_factory(4) } else { OutboundAliasResolverFactory::new_manual_factory() };
                let mut h = H::new_with_resolver(cfg, Some((factory)()));
                for (conn, (max, seq)) in [(Some(first_max), &seq1), (second_max, &seq2)].iter().enumerate() {
                    h.open().map_err(|e| format!("open {:?}", e))?; h.service(4096).unwrap(); h.write_completion().unwrap();
                    h.deliver(MqttPacket::Connack(ConnackPacket { session_present: conn == 1 && session, topic_alias_maximum: *max, ..Default::default() }), 1 << 20).map_err(|e| format!("connack {:?}", e))?;
                    let limit = max.unwrap_or(0);
                    let mut server: HashMap<u16, String> = HashMap::new();
                    for (i, t) in seq.iter().enumerate() {
                        let topic = topics[*t];
                        let before = h.sent_this_connection.len();
                        if resolver == 1 { h.submit_publish_with_alias(topic, QualityOfService::AtMostOnce, 4, Some(1 + *t as u16)); } else { h.submit_publish(topic, QualityOfService::AtMostOnce, 4); }
                        h.service(4096).map_err(|e| format!("service {:?}", e))?;
                        if h.ps.pending_write_completion { h.write_completion().map_err(|e| format!("wc {:?}", e))?; }
                        for p in h.sent_this_connection[before..].iter() { if let MqttPacket::Publish(p) = &**p {
                            if let Some(a) = p.topic_alias { if a == 0 || a > limit { return Err(format!("connection {} publish {}: alias {} although the server's Topic Alias Maximum is {:?}", conn + 1, i, a, max)); } }
                            let seen = if p.topic.is_empty() { match p.topic_alias.and_then(|a| server.get(&a)) { Some(s) => s.clone(), None => return Err(format!("connection {} publish {}: empty topic with alias {:?} that was never bound on THIS connection", conn + 1, i, p.topic_alias)) } }
                                       else { if let Some(a) = p.topic_alias { server.insert(a, p.topic.clone()); } p.topic.clone() };
                            if seen != topic { return Err(format!("connection {} publish {}: server reconstructs {:?}, application published to {:?}", conn + 1, i, seen, topic)); }
                        } }
                    }
                    h.close().map_err(|e| format!("close {:?}", e))?;
                }
                Ok(())
            })();
            if let Err(e) = r { if fails.len() < 20 { fails.push(format!("first max {} second max {:?} resolver {} session_present {} seq1 {:?} seq2 {:?} :: {}", first_max, second_max, if resolver == 0 { "LRU" } else { "manual" }, session, seq1, seq2, e)); } }
        } }
    } } } }
    println!("BOUNDED outbound_aliases_never_survive_a_reconnect cases={} bound=two connections: first Topic Alias Maximum {{1,2,4}}, second {{absent,0,1,2}} x LRU/manual resolver x session present/absent x 3x3 topic sequences over 2 topics; server table rebuilt per connection from the wire", cases);
    for f in &fails { println!("BOUNDED-FAIL outbound_aliases_never_survive_a_reconnect {}", f); }
    assert!(fails.is_empty());
}
