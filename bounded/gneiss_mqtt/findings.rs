// Demonstrations of the OPEN known findings against the real code (each test passes while the defect is present and
// names the failing history/input), plus regression demonstrations for the repaired ones.
use super::harness::*;
use crate::client::config::*;
use crate::mqtt::*;
use crate::protocol::*;
use crate::validate::*;
use crate::client::NegotiatedSettings;
use std::time::Duration;

fn cfg() -> Cfg {
    Cfg { policy: OfflineQueuePolicy::PreserveAll, drain: PostReconnectQueueDrainPolicy::None, mode: ProtocolMode::Mqtt5, retries: None, keep_alive: None, ack_timeout: Some(Duration::from_millis(100)) }
}

/// F-TIMEOUT-CURRENT (C11, C18; fixed): QoS2 publish with an ack timeout; PUBREC; the PUBREL is only half encoded (output buffer
/// with < 4 free bytes) when the ack timeout comes due. The operation must stay tracked while the encoder needs it (no panic at
/// the next service), the PUBREL must go out whole, and the operation must then fail with the ack-timeout error, exactly once.
fn timeout_for_half_written_pubrel() -> Result<(), String> {
    let mut h = H::new(cfg());
    h.connect(false, None).map_err(|e| format!("setup {:?}", e))?;
    let tag = h.submit(Kind::Pub2);
    h.service(4096).unwrap();
    h.write_completion().unwrap();
    let pid = match h.sent_this_connection.last().map(|p| &**p) { Some(MqttPacket::Publish(p)) => p.packet_id, _ => return Err("setup: no publish".into()) };
    h.deliver(MqttPacket::Pubrec(PubrecPacket { packet_id: pid, ..Default::default() }), 64).unwrap();
    h.advance(200);                 // the ack timeout (100 ms after the publish was written) is now due
    let r = h.service(5);           // capacity 5: first byte(s) of the PUBREL are written, the packet stays current
    if h.ps.current_operation.is_none() { return Err("setup: PUBREL not half-written".into()); }
    if r.is_err() { return Err(format!("service with the half-written PUBREL failed: {:?}", r.err())); }
    if !h.cur_ok() { return Err("the ack timeout removed the operation while its PUBREL is half written (current_operation no longer tracked)".into()); }
    if h.result_count(tag) != 0 { return Err("operation completed while the encoder still needs it".into()); }
    h.write_completion().map_err(|e| format!("write completion {:?}", e))?;
    let now = h.now;
    match h.ps.get_next_service_timepoint(&now) { Some(t) if t <= now => {}, other => return Err(format!("half-written PUBREL, write completed: next service time {:?} is not 'now'", other.map(|t| t.saturating_duration_since(now)))) }
    let mut rounds = 0;
    while h.result_count(tag) == 0 && rounds < 4 {
        rounds += 1;
        match std::panic::catch_unwind(std::panic::AssertUnwindSafe(|| h.service(4096))) {
            Err(_) => return Err("service() after the half-written PUBREL panicked".into()),
            Ok(Err(e)) => return Err(format!("service() after the half-written PUBREL failed: {:?}", e)),
            Ok(Ok(_)) => {}
        }
        if h.ps.pending_write_completion { h.write_completion().map_err(|e| format!("write completion {:?}", e))?; }
        if h.result_count(tag) == 0 { let now = h.now; match h.ps.get_next_service_timepoint(&now) { Some(t) if t <= now => {}, other => return Err(format!("PUBREL written, timeout elapsed during the write: next service time {:?} is not 'now'", other.map(|t| t.saturating_duration_since(now)))) } }
    }
    match h.sent_this_connection.last().map(|p| &**p) { Some(MqttPacket::Pubrel(p)) if p.packet_id == pid => {}, other => return Err(format!("the PUBREL did not go out whole: last packet on the wire {:?}", other.map(|p| crate::mqtt::utils::mqtt_packet_to_str(p)))) }
    match h.result_of(tag) { Some(Outcome::Err(e)) if e == "AckTimeout" => {}, other => return Err(format!("after the PUBREL was written the due ack timeout must fail the operation; outcome {:?} after {} services", other.map(|o| match o { Outcome::Ok(s) => s, Outcome::Err(s) => s }), rounds)) }
    if h.result_count(tag) != 1 { return Err("more than one result".into()); }
    h.check_wf()
}

/// F-SUBID (C02): the SUBSCRIBE subscription identifier goes out as 0x0B + four bytes instead of 0x0B + Variable Byte Integer.
#[test]
fn f_subid_wire_width() {
    use crate::encode::*;
    use crate::alias::OutboundAliasResolution;
    let packet = MqttPacket::Subscribe(SubscribePacket { packet_id: 1, subscription_identifier: Some(5),
        subscriptions: vec![Subscription { topic_filter: "a".to_string(), qos: QualityOfService::AtMostOnce, ..Default::default() }], ..Default::default() });
    let mut enc = Encoder::new();
    enc.reset(&packet, &EncodingContext { outbound_alias_resolution: OutboundAliasResolution::default(), protocol_version: ProtocolVersion::Mqtt5 }).unwrap();
    let mut bytes = Vec::with_capacity(256);
    while enc.encode(&packet, &mut bytes).unwrap() != EncodeResult::Complete {}
    // spec (3.8): 82 | remaining length | 00 01 | props len 02 | 0B 05 | 00 01 'a' | options 00
    let spec: Vec<u8> = vec![0x82, 0x09, 0x00, 0x01, 0x02, 0x0B, 0x05, 0x00, 0x01, b'a', 0x00];
    println!("F-SUBID encoded={:02x?} spec={:02x?}", bytes, spec);
    if bytes != spec { println!("FINDING-PRESENT F-SUBID"); } else { println!("FINDING-ABSENT F-SUBID"); }
}

/// F-SUBID-AVAIL (C16): Subscription Identifiers Available = 0 is not enforced at send time.
#[test]
fn f_subid_avail_not_enforced() {
    let settings = NegotiatedSettings { subscription_identifiers_available: false, wildcard_subscriptions_available: true, shared_subscriptions_available: true,
        retain_available: true, maximum_packet_size_to_server: 268435455, maximum_qos: QualityOfService::ExactlyOnce, receive_maximum_from_server: 10, ..Default::default() };
    let connect_options = ConnectOptions::builder().build();
    let ctx = OutboundValidationContext { negotiated_settings: Some(&settings), connect_options: Some(&connect_options), outbound_alias_resolution: None };
    let packet = MqttPacket::Subscribe(SubscribePacket { packet_id: 1, subscription_identifier: Some(1),
        subscriptions: vec![Subscription { topic_filter: "a/b".to_string(), qos: QualityOfService::AtLeastOnce, ..Default::default() }], ..Default::default() });
    let r = validate_packet_outbound_internal(&packet, &ctx);
    println!("F-SUBID-AVAIL validate_packet_outbound_internal -> {:?}", r.is_ok());
    if r.is_ok() { println!("FINDING-PRESENT F-SUBID-AVAIL"); } else { println!("FINDING-ABSENT F-SUBID-AVAIL"); }
}

/// F-QOS2-DOUBLE-RESUBMIT (C04/C01): a retransmitted (DUP=1) QoS2 publish gets its PUBREC on the second connection; the PUBREL is
/// half-written when that connection closes: the operation is queued for retransmission twice (once as the half-written current
/// operation, once from the in-flight table).
#[test]
fn f_qos2_double_resubmit() {
    let mut c = cfg(); c.ack_timeout = None;
    let mut h = H::new(c);
    h.connect(false, None).unwrap();
    let _tag = h.submit(Kind::Pub2);
    h.service(4096).unwrap(); h.write_completion().unwrap();
    h.close().unwrap();                                   // in flight -> resubmit queue, DUP=1
    h.connect(true, None).unwrap();                       // session resumed
    h.service(4096).unwrap(); h.write_completion().unwrap();   // retransmission fully written
    let pid = match h.sent_this_connection.last().map(|p| &**p) { Some(MqttPacket::Publish(p)) => { assert!(p.duplicate); p.packet_id } _ => panic!("setup: no retransmission") };
    h.deliver(MqttPacket::Pubrec(PubrecPacket { packet_id: pid, ..Default::default() }), 64).unwrap();
    h.service(5).unwrap();                                // PUBREL only partly encoded
    let half_written = h.ps.current_operation.is_some();
    h.close().unwrap();
    let q: Vec<u64> = h.ps.resubmit_operation_queue.iter().copied().collect();
    println!("F-QOS2-DOUBLE-RESUBMIT half_written={} resubmit_queue={:?}", half_written, q);
    let dup = q.len() == 2 && q[0] == q[1];
    if dup { println!("FINDING-PRESENT F-QOS2-DOUBLE-RESUBMIT"); } else { println!("FINDING-ABSENT F-QOS2-DOUBLE-RESUBMIT"); }
}

// ---------------------------------------------------------------------------------------------------------------------
// Regression demonstrations of REPAIRED engine findings: each closure replays the recorded failing history against the
// real engine and returns Err(description) when the defect is back. Bounded (a handful of fixed histories), never a proof.

/// F-ACK-CURRENT (C11): PUBCOMP / failing PUBREC arriving while the PUBREL / the operation is the encoder's current operation.
fn ack_for_half_written_pubrel(failing_pubrec: bool) -> Result<(), String> {
    let mut c = cfg(); c.ack_timeout = None;
    let mut h = H::new(c);
    h.connect(false, None).map_err(|e| format!("setup {:?}", e))?;
    let _tag = h.submit(Kind::Pub2);
    h.service(4096).unwrap(); h.write_completion().unwrap();
    let pid = match h.sent_this_connection.last().map(|p| &**p) { Some(MqttPacket::Publish(p)) => p.packet_id, _ => return Err("setup: no publish".into()) };
    h.deliver(MqttPacket::Pubrec(PubrecPacket { packet_id: pid, ..Default::default() }), 64).unwrap();
    h.service(5).unwrap();                                // PUBREL only partly encoded
    if h.ps.current_operation.is_none() { return Err("setup: PUBREL not half-written".into()); }
    let rogue = if failing_pubrec { MqttPacket::Pubrec(PubrecPacket { packet_id: pid, reason_code: PubrecReasonCode::UnspecifiedError, ..Default::default() }) }
                else { MqttPacket::Pubcomp(PubcompPacket { packet_id: pid, ..Default::default() }) };
    let r = h.deliver(rogue, 64);
    let tracked = h.cur_ok();
    let _ = h.write_completion();
    let panicked = std::panic::catch_unwind(std::panic::AssertUnwindSafe(|| { let _ = h.service(4096); })).is_err();
    if panicked || !tracked || r.is_ok() { return Err(format!("ack for the half-written operation: accepted={} current_operation_still_tracked={} next_service_panicked={}", r.is_ok(), tracked, panicked)); }
    if h.ps.state != ProtocolStateType::Halted { return Err("protocol violation did not halt the engine".into()); }
    Ok(())
}

/// F-CONNACK-EARLY (C11/C07): CONNACK delivered while the CONNECT is half-encoded (capacity 5) or encoded but not yet flushed.
fn connack_before_connect_flushed(half_encoded: bool) -> Result<(), String> {
    let mut c = cfg(); c.ack_timeout = None;
    let mut h = H::new(c);
    h.open().map_err(|e| format!("setup {:?}", e))?;
    h.service(if half_encoded { 5 } else { 4096 }).unwrap();
    if half_encoded && h.ps.current_operation.is_none() { return Err("setup: CONNECT not half-written".into()); }
    let r = std::panic::catch_unwind(std::panic::AssertUnwindSafe(|| h.connack(false, None)));
    match r {
        Err(_) => Err("CONNACK before the CONNECT was flushed panicked".into()),
        Ok(Ok(())) => Err(format!("CONNACK before the CONNECT was flushed was accepted (state {:?})", h.ps.state)),
        Ok(Err(_)) => if h.ps.state == ProtocolStateType::Halted { Ok(()) } else { Err("error without Halted".into()) },
    }
}

#[test]
fn engine_fixed_findings_stay_fixed() {
    let mut fails: Vec<String> = Vec::new();
    let mut cases = 0;
    let runs: Vec<(&str, Box<dyn Fn() -> Result<(), String>>)> = vec![
        ("F-TIMEOUT-CURRENT", Box::new(|| timeout_for_half_written_pubrel())),
        ("F-ACK-CURRENT pubcomp", Box::new(|| ack_for_half_written_pubrel(false))),
        ("F-ACK-CURRENT failing-pubrec", Box::new(|| ack_for_half_written_pubrel(true))),
        ("F-CONNACK-EARLY half-encoded", Box::new(|| connack_before_connect_flushed(true))),
        ("F-CONNACK-EARLY unflushed", Box::new(|| connack_before_connect_flushed(false))),
        ("F-SLOWSTART-WIPED session-present", Box::new(|| slow_start_survives_failed_attempt(true))),
        ("F-SLOWSTART-WIPED session-absent", Box::new(|| slow_start_survives_failed_attempt(false))),
    ];
    for (name, f) in runs.iter() {
        cases += 1;
        match std::panic::catch_unwind(std::panic::AssertUnwindSafe(|| f())) {
            Ok(Ok(())) => {}
            Ok(Err(e)) => fails.push(format!("{}: {}", name, e)),
            Err(_) => fails.push(format!("{}: panicked", name)),
        }
    }
    println!("BOUNDED engine_fixed_findings_stay_fixed cases={} bound=the recorded failing histories of the repaired engine findings (F-TIMEOUT-CURRENT, F-ACK-CURRENT, F-CONNACK-EARLY, F-SLOWSTART-WIPED), one replay each", cases);
    for f in &fails { println!("BOUNDED-FAIL engine_fixed_findings_stay_fixed {}", f); }
    assert!(fails.is_empty());
}

/// F-SLOWSTART-WIPED (C09): one-at-a-time drain; three QoS1 publishes in flight; disconnect; a connection attempt that opens and
/// closes again before its CONNACK; then a successful reconnect that resumes the session: every interrupted publish must still
/// be drained one at a time.
fn slow_start_survives_failed_attempt(session_present: bool) -> Result<(), String> {
    let mut c = cfg(); c.ack_timeout = None; c.drain = PostReconnectQueueDrainPolicy::OneAtATime;
    let mut h = H::new(c);
    h.connect(false, None).map_err(|e| format!("setup {:?}", e))?;
    for _ in 0..3 { h.submit(Kind::Pub1); }
    h.service(4096).unwrap(); h.write_completion().unwrap();
    if h.ps.pending_publish_operations.len() != 3 { return Err("setup: three publishes should be in flight".into()); }
    h.close().unwrap();
    h.open().unwrap(); h.service(4096).unwrap(); h.write_completion().unwrap();     // CONNECT goes out ...
    h.close().unwrap();                                                               // ... but the transport dies before CONNACK
    h.connect(session_present, None).map_err(|e| format!("reconnect {:?}", e))?;
    let mut worst = 0usize;
    for _ in 0..8 {
        h.service(4096).unwrap();
        if h.ps.pending_write_completion { h.write_completion().unwrap(); }
        let outstanding = h.ps.pending_publish_operations.len() + h.ps.pending_non_publish_operations.len();
        worst = worst.max(outstanding);
    }
    if worst > 1 { return Err(format!("{} operations awaiting an acknowledgement at once while the interrupted ones are unresolved (one-at-a-time drain, session_present={})", worst, session_present)); }
    Ok(())
}
