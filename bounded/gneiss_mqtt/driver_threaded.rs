// E-B (bounded schedule/fault exploration, NOT a proof): the threaded driver over scripted in-memory streams (C13).
// Oracle, independent of the driver and of the crate's codec: for EVERY connection the bytes the transport accepted must be
// a prefix of a sequence of well-formed client packets (reference decoder of refdec.rs) that starts with exactly one
// CONNECT - i.e. nothing but what the protocol engine produced for THAT connection, in order, without loss or duplication.
// Faults explored: write accepts at most k bytes per call, would-block in between, connection reset after n bytes of the
// first post-CONNECT batch; the client then reconnects (QoS1 publishes are kept and must go out again, once, after the CONNECT).
#![cfg(feature = "threaded")]
use crate::client::*;
use crate::client::config::*;
use crate::client::synchronous::threaded::*;
use crate::mqtt::*;
use super::refdec::{ref_decode, RefPacket};
use std::collections::VecDeque;
use std::io::{Read, Write};
use std::sync::{Arc, Mutex};
use std::time::{Duration, Instant};

#[derive(Default)]
struct Conn {
    written: Vec<u8>,
    readable: VecDeque<u8>,
    flushes: usize,
    max_per_write: usize,          // 0 = unlimited
    would_block_every: usize,      // 0 = never; n = every n-th write call answers WouldBlock
    write_calls: usize,
    reset_after: Option<usize>,    // absolute number of accepted bytes after which every write fails with ConnectionReset
    reset_extra: Option<usize>,    // set by flush #1: reset_after = written + extra
}

struct Stream { c: Arc<Mutex<Conn>> }

impl Read for Stream {
    fn read(&mut self, buf: &mut [u8]) -> std::io::Result<usize> {
        let mut c = self.c.lock().unwrap();
        if c.readable.is_empty() { return Err(std::io::Error::from(std::io::ErrorKind::WouldBlock)); }
        let mut n = 0;
        while n < buf.len() { match c.readable.pop_front() { Some(b) => { buf[n] = b; n += 1; } None => break } }
        Ok(n)
    }
}

impl Write for Stream {
    fn write(&mut self, buf: &[u8]) -> std::io::Result<usize> {
        let mut c = self.c.lock().unwrap();
        c.write_calls += 1;
        if let Some(limit) = c.reset_after { if c.written.len() >= limit { return Err(std::io::Error::from(std::io::ErrorKind::ConnectionReset)); } }
        if c.would_block_every > 0 && c.write_calls % c.would_block_every == 0 { return Err(std::io::Error::from(std::io::ErrorKind::WouldBlock)); }
        let mut n = buf.len();
        if c.max_per_write > 0 { n = n.min(c.max_per_write); }
        if let Some(limit) = c.reset_after { n = n.min(limit - c.written.len()); }
        c.written.extend_from_slice(&buf[..n]);
        Ok(n)
    }
    fn flush(&mut self) -> std::io::Result<()> {
        let mut c = self.c.lock().unwrap();
        c.flushes += 1;
        if c.flushes == 1 {
            c.readable.extend([0x20u8, 0x03, 0x00, 0x00, 0x00].iter());      // MQTT5 CONNACK, success
            if let Some(extra) = c.reset_extra { c.reset_after = Some(c.written.len() + extra); }
        }
        Ok(())
    }
}

/// the per-connection oracle: a (possibly truncated) sequence of well-formed packets beginning with exactly one CONNECT;
/// returns the packet type nibbles of the complete packets
fn judge_stream(bytes: &[u8]) -> Result<Vec<u8>, String> {
    let mut i = 0; let mut kinds = Vec::new();
    while i < bytes.len() {
        match ref_decode(&bytes[i..], true) {
            Ok((p, used)) => {
                let k = bytes[i] >> 4;
                if kinds.is_empty() && !matches!(p, RefPacket::Connect { .. }) { return Err(format!("first packet of the connection is type {} - not a CONNECT", k)); }
                if !kinds.is_empty() && matches!(p, RefPacket::Connect { .. }) { return Err("second CONNECT on one connection".into()); }
                kinds.push(k); i += used;
            }
            Err(e) => {
                // a truncated tail is fine (the connection died mid-packet) if it is a proper prefix of a packet: the fixed header must at least be plausible
                if kinds.is_empty() && bytes[i] >> 4 != 1 { return Err(format!("connection starts with a byte that is not a CONNECT header: {:02x}", bytes[i])); }
                let declared = declared_len(&bytes[i..]);
                match declared { Some(total) if total > bytes.len() - i => break, None if bytes.len() - i < 5 => break, _ => return Err(format!("malformed packet at offset {}: {}", i, e)) }
            }
        }
    }
    Ok(kinds)
}

fn declared_len(b: &[u8]) -> Option<usize> {
    let mut v = 0usize; let mut m = 1usize;
    for i in 1..5 { let x = *b.get(i)?; v += (x & 127) as usize * m; m *= 128; if x & 128 == 0 { return Some(1 + i + v); } }
    None
}

fn wait_for<F: Fn() -> bool>(what: &str, f: F) -> Result<(), String> {
    let deadline = Instant::now() + Duration::from_secs(10);
    while !f() { if Instant::now() > deadline { return Err(format!("timed out waiting for {}", what)); } std::thread::sleep(Duration::from_millis(3)); }
    Ok(())
}

fn scenario(max_per_write: usize, would_block_every: usize, reset_extra: Option<usize>, n_publishes: usize) -> Result<(), String> {
    let conns: Arc<Mutex<Vec<Arc<Mutex<Conn>>>>> = Arc::new(Mutex::new(Vec::new()));
    let fc = conns.clone();
    let factory: ThreadedConnectionFactory<Stream> = Arc::new(move || {
        let mut all = fc.lock().unwrap();
        let first = all.is_empty();
        let c = Arc::new(Mutex::new(Conn { max_per_write, would_block_every, reset_extra: if first { reset_extra } else { None }, ..Default::default() }));
        all.push(c.clone());
        Ok(Stream { c })
    });
    let mut ob = MqttClientOptions::builder();
    ob.with_offline_queue_policy(OfflineQueuePolicy::PreserveAll).with_reconnect_period_jitter(ExponentialBackoffJitterType::None)
        .with_base_reconnect_period(Duration::from_millis(30)).with_max_reconnect_period(Duration::from_millis(30));
    let client = new_threaded_client(ob.build(), ConnectOptions::builder().with_client_id("verif-threaded").build(), ThreadedOptions::builder().build(), factory);
    let mut results = Vec::new();
    for i in 0..n_publishes { results.push(client.publish(PublishPacket::builder(format!("verif/{}", i), QualityOfService::AtLeastOnce).with_payload(vec![0xA0 + i as u8; 40]).build(), None)); }
    client.start(None).map_err(|e| format!("start {:?}", e))?;
    let expect_conns = if reset_extra.is_some() { 2 } else { 1 };
    wait_for("the connections", || conns.lock().unwrap().len() >= expect_conns)?;
    let last = conns.lock().unwrap()[expect_conns - 1].clone();
    // all publishes completely written on the last connection: CONNECT + n PUBLISH packets parse
    wait_for("the publishes on the last connection", || judge_stream(&last.lock().unwrap().written).map(|k| k.iter().filter(|t| **t == 3).count() >= n_publishes).unwrap_or(true))?;
    std::thread::sleep(Duration::from_millis(20));
    let streams: Vec<Vec<u8>> = conns.lock().unwrap().iter().map(|c| c.lock().unwrap().written.clone()).collect();
    let _ = client.close();
    for (i, s) in streams.iter().enumerate() {
        let kinds = judge_stream(s).map_err(|e| format!("connection {}: {} (bytes {:02x?})", i + 1, e, &s[..s.len().min(48)]))?;
        if i + 1 == streams.len() {
            let pubs = kinds.iter().filter(|t| **t == 3).count();
            if pubs != n_publishes { return Err(format!("connection {}: {} PUBLISH packets for {} operations (packet types {:?})", i + 1, pubs, n_publishes, kinds)); }
        }
    }
    drop(results);
    Ok(())
}

#[test]
fn threaded_driver_hands_each_connection_only_its_own_bytes() {
    let thorough = super::tier_thorough();
    let mut cases = 0u64; let mut fails: Vec<String> = Vec::new();
    let per_write: &[usize] = if thorough { &[0, 1, 2, 3, 7, 64] } else { &[0, 1, 3, 64] };
    let resets: &[Option<usize>] = if thorough { &[None, Some(0), Some(1), Some(2), Some(5), Some(17), Some(49)] } else { &[None, Some(0), Some(5), Some(49)] };
    for &m in per_write { for wb in [0usize, 2, 3] { for &r in resets { for n in [1usize, 2] {
        cases += 1;
        if let Err(e) = scenario(m, wb, r, n) { if fails.len() < 20 { fails.push(format!("max_per_write={} would_block_every={} reset_after_post_connect_bytes={:?} publishes={} :: {}", m, wb, r, n, e)); } }
    } } } }
    println!("BOUNDED threaded_driver_hands_each_connection_only_its_own_bytes cases={} bound=1-2 QoS1 publishes x write accepts {{all,1,3,64}} bytes per call x WouldBlock every {{never,2nd,3rd}} call x connection reset after {{never,0,5,49}} bytes of the first batch (then reconnect); real threaded client; per-connection stream judged by the independent reference decoder", cases);
    for f in &fails { println!("BOUNDED-FAIL threaded_driver_hands_each_connection_only_its_own_bytes {}", f); }
    assert!(fails.is_empty());
}

/// C13: "once the client is closed, every operation submitted before, during or after the close resolves (with an error if it did
/// not complete) instead of waiting forever" - publish/subscribe/unsubscribe submitted at several offsets around close(), on a client
/// that is stopped, connecting or connected; each receiver must produce a result within 3 s.
fn around_close(started: bool, delay_after_close_us: u64, before: usize, after: usize) -> Result<(), String> {
    let conns: Arc<Mutex<Vec<Arc<Mutex<Conn>>>>> = Arc::new(Mutex::new(Vec::new()));
    let fc = conns.clone();
    let factory: ThreadedConnectionFactory<Stream> = Arc::new(move || { let c = Arc::new(Mutex::new(Conn::default())); fc.lock().unwrap().push(c.clone()); Ok(Stream { c }) });
    let client = new_threaded_client(MqttClientOptions::builder().build(), ConnectOptions::builder().with_client_id("verif-close").build(), ThreadedOptions::builder().build(), factory);
    if started { client.start(None).map_err(|e| format!("start {:?}", e))?; std::thread::sleep(Duration::from_millis(15)); }
    let mut receivers = Vec::new();
    let publish = |i: usize| PublishPacket::builder(format!("verif/close/{}", i), QualityOfService::AtLeastOnce).with_payload(vec![1, 2, 3]).build();
    for i in 0..before { receivers.push((format!("publish #{} before close", i), client.publish(publish(i), None))); }
    client.close().map_err(|e| format!("close {:?}", e))?;
    if delay_after_close_us > 0 { std::thread::sleep(Duration::from_micros(delay_after_close_us)); }
    for i in 0..after { receivers.push((format!("publish #{} after close (+{} us)", i, delay_after_close_us), client.publish(publish(100 + i), None))); }
    let deadline = Instant::now() + Duration::from_secs(3);
    for (what, r) in receivers.iter() {
        loop {
            if r.try_recv().is_some() { break; }
            if Instant::now() > deadline { return Err(format!("{} never resolved (waited 3 s)", what)); }
            std::thread::sleep(Duration::from_millis(2));
        }
    }
    Ok(())
}

#[test]
fn threaded_operations_around_close_always_resolve() {
    let mut cases = 0u64; let mut fails: Vec<String> = Vec::new();
    for started in [false, true] { for delay in [0u64, 50, 500, 5000, 50000] { for (b, a) in [(0usize, 1usize), (1, 0), (1, 1), (2, 2)] {
        cases += 1;
        if let Err(e) = around_close(started, delay, b, a) { if fails.len() < 20 { fails.push(format!("started={} delay_after_close_us={} before={} after={} :: {}", started, delay, b, a, e)); } }
    } } }
    println!("BOUNDED threaded_operations_around_close_always_resolve cases={} bound=client stopped/started x publishes submitted before close and 0/50/500/5000/50000 us after it x up to 2+2 operations; real threaded client", cases);
    for f in &fails { println!("BOUNDED-FAIL threaded_operations_around_close_always_resolve {}", f); }
    assert!(fails.is_empty());
}

/// C11/C12 for the threaded event loop: huge configured durations (connect timeout, reconnect periods) must not kill the client
/// thread. Observed from outside: with a huge connect timeout the connection is still made; with huge reconnect periods the client
/// still obeys a stop request while it waits to reconnect.
#[test]
fn threaded_driver_survives_extreme_durations() {
    let mut cases = 0u64; let mut fails: Vec<String> = Vec::new();
    for t in [Duration::MAX, Duration::from_secs(u64::MAX), Duration::from_secs(1 << 62)] {
        // (a) connect timeout
        cases += 1;
        let r: Result<(), String> = (|| {
            let conns: Arc<Mutex<Vec<Arc<Mutex<Conn>>>>> = Arc::new(Mutex::new(Vec::new()));
            let fc = conns.clone();
            let factory: ThreadedConnectionFactory<Stream> = Arc::new(move || { let c = Arc::new(Mutex::new(Conn::default())); fc.lock().unwrap().push(c.clone()); Ok(Stream { c }) });
            let mut ob = MqttClientOptions::builder();
            ob.with_connect_timeout(t);
            let client = new_threaded_client(ob.build(), ConnectOptions::builder().with_client_id("verif-extreme").build(), ThreadedOptions::builder().build(), factory);
            client.start(None).map_err(|e| format!("start {:?}", e))?;
            let res = wait_for("a CONNECT on the wire", || conns.lock().unwrap().first().map(|c| !c.lock().unwrap().written.is_empty()).unwrap_or(false));
            let _ = client.close();
            res
        })();
        if let Err(e) = r { fails.push(format!("F-DURATION-OVERFLOW connect_timeout={:?}: {} (the client thread panicked on Instant + Duration)", t, e)); }
        // (b) reconnect periods
        cases += 1;
        let r: Result<(), String> = (|| {
            let factory: ThreadedConnectionFactory<Stream> = Arc::new(move || Err(crate::error::GneissError::new_connection_establishment_failure("verif: transport refuses")));
            let mut ob = MqttClientOptions::builder();
            ob.with_reconnect_period_jitter(ExponentialBackoffJitterType::None).with_base_reconnect_period(t).with_max_reconnect_period(t);
            let client = new_threaded_client(ob.build(), ConnectOptions::builder().with_client_id("verif-extreme").build(), ThreadedOptions::builder().build(), factory);
            let evs: Arc<Mutex<Vec<u8>>> = Arc::new(Mutex::new(Vec::new()));
            let e2 = evs.clone();
            let _h = client.add_event_listener(Arc::new(move |e: Arc<ClientEvent>| { let k = match &*e { ClientEvent::ConnectionFailure(_) => 1u8, ClientEvent::Stopped(_) => 2u8, _ => 0u8 }; e2.lock().unwrap().push(k); })).map_err(|e| format!("listener {:?}", e))?;
            client.start(None).map_err(|e| format!("start {:?}", e))?;
            wait_for("the connection failure", || evs.lock().unwrap().contains(&1))?;
            std::thread::sleep(Duration::from_millis(30));
            client.stop(None).map_err(|e| format!("stop {:?}", e))?;
            let res = wait_for("Stopped after a stop request during the reconnect wait", || evs.lock().unwrap().contains(&2));
            let _ = client.close();
            res
        })();
        if let Err(e) = r { fails.push(format!("F-DURATION-OVERFLOW reconnect_period={:?}: {} (the client thread panicked on Instant + Duration)", t, e)); }
    }
    println!("BOUNDED threaded_driver_survives_extreme_durations cases={} bound=connect timeout / reconnect periods in {{Duration::MAX, u64::MAX s, 2^62 s}}; real threaded client", cases);
    for f in &fails { println!("BOUNDED-FAIL threaded_driver_survives_extreme_durations {}", f); }
    assert!(fails.is_empty());
}
