// E-B (C03): an INDEPENDENT reference encoder for server-to-client MQTT control packets, written from the OASIS
// specifications only (MQTT 5.0 os, 7 March 2019; MQTT 3.1.1 os, 29 October 2014), and a bounded test that feeds its
// output to the crate's real incremental Decoder.  Nothing in here calls encode.rs or the mqtt/*.rs encoders; the only
// crate items used are the Decoder, the inbound validation entry point and the logical packet structs (to state the
// expected result).  Section numbers in comments refer to the MQTT 5.0 specification unless they say "3.1.1".
use crate::decode::{Decoder, DecodingContext};
use crate::mqtt::*;
use crate::validate::{validate_packet_inbound_internal, InboundValidationContext};
use std::collections::VecDeque;

const TEST: &str = "inbound_packets_from_reference_encoder_decode_faithfully";

// ------------------------------------------------------------------------------------------------------------------
// 1. Neutral description of a server-to-client packet
// ------------------------------------------------------------------------------------------------------------------

/// A property value, by wire data type (2.2.2.2 / 1.5).
#[derive(Clone, Debug, PartialEq)]
pub(crate) enum RefVal { Byte(u8), U16(u16), U32(u32), Vbi(u32), Str(String), Bin(Vec<u8>), Pair(String, String) }

/// One property: identifier + typed value.  A packet carries an ORDERED list of these.
#[derive(Clone, Debug, PartialEq)]
pub(crate) struct RefProp { pub(crate) id: u8, pub(crate) value: RefVal }

/// Which of the wire forms the specification permits for PUBACK/PUBREC/PUBREL/PUBCOMP (3.4.2.1, 3.4.2.2.1) and
/// DISCONNECT (3.14.2.1, 3.14.2.2.1) is emitted.
#[derive(Clone, Copy, Debug, PartialEq)]
pub(crate) enum RefForm {
    /// reason code + property length + properties (always emitted, even when success / empty)
    Full,
    /// reason code only; no property length ("If the Remaining Length is less than 4 there is no Property Length")
    ReasonOnly,
    /// nothing after the packet identifier (acks, remaining length 2) / empty body (DISCONNECT, remaining length 0)
    Bare,
}

#[derive(Clone, Debug, PartialEq)]
pub(crate) struct RefAck { pub(crate) packet_id: u16, pub(crate) reason: u8, pub(crate) props: Vec<RefProp>, pub(crate) form: RefForm }

#[derive(Clone, Debug, PartialEq)]
pub(crate) enum RefServerPacket {
    /// `reason` is the Connect Reason Code (v5, 3.2.2.2) or the Connect Return code (3.1.1, 3.2.2.3)
    Connack { session_present: bool, reason: u8, props: Vec<RefProp> },
    Publish { dup: bool, qos: u8, retain: bool, topic: String, packet_id: u16, props: Vec<RefProp>, payload: Vec<u8> },
    Puback(RefAck),
    Pubrec(RefAck),
    Pubrel(RefAck),
    Pubcomp(RefAck),
    /// `reasons` are Reason Codes (v5, 3.9.3) or Return Codes (3.1.1, 3.9.3)
    Suback { packet_id: u16, props: Vec<RefProp>, reasons: Vec<u8> },
    /// `reasons` only exist on the wire in v5 (3.11.3); the 3.1.1 UNSUBACK has no payload
    Unsuback { packet_id: u16, props: Vec<RefProp>, reasons: Vec<u8> },
    Pingresp,
    Disconnect { reason: u8, props: Vec<RefProp>, form: RefForm },
}

// Property identifiers, 2.2.2.2 Table 2-4.
const P_PAYLOAD_FORMAT: u8 = 0x01;
const P_MESSAGE_EXPIRY: u8 = 0x02;
const P_CONTENT_TYPE: u8 = 0x03;
const P_RESPONSE_TOPIC: u8 = 0x08;
const P_CORRELATION_DATA: u8 = 0x09;
const P_SUBSCRIPTION_ID: u8 = 0x0B;
const P_SESSION_EXPIRY: u8 = 0x11;
const P_ASSIGNED_CLIENT_ID: u8 = 0x12;
const P_SERVER_KEEP_ALIVE: u8 = 0x13;
const P_AUTH_METHOD: u8 = 0x15;
const P_AUTH_DATA: u8 = 0x16;
const P_REQUEST_PROBLEM_INFO: u8 = 0x17;
const P_WILL_DELAY: u8 = 0x18;
const P_REQUEST_RESPONSE_INFO: u8 = 0x19;
const P_RESPONSE_INFO: u8 = 0x1A;
const P_SERVER_REFERENCE: u8 = 0x1C;
const P_REASON_STRING: u8 = 0x1F;
const P_RECEIVE_MAXIMUM: u8 = 0x21;
const P_TOPIC_ALIAS_MAXIMUM: u8 = 0x22;
const P_TOPIC_ALIAS: u8 = 0x23;
const P_MAXIMUM_QOS: u8 = 0x24;
const P_RETAIN_AVAILABLE: u8 = 0x25;
const P_USER_PROPERTY: u8 = 0x26;
const P_MAXIMUM_PACKET_SIZE: u8 = 0x27;
const P_WILDCARD_SUB_AVAILABLE: u8 = 0x28;
const P_SUB_ID_AVAILABLE: u8 = 0x29;
const P_SHARED_SUB_AVAILABLE: u8 = 0x2A;

// ------------------------------------------------------------------------------------------------------------------
// 2. Reference encoder
// ------------------------------------------------------------------------------------------------------------------

fn put_u16(out: &mut Vec<u8>, v: u16) { out.push((v >> 8) as u8); out.push((v & 0xff) as u8); }                    // 1.5.2 big-endian
fn put_u32(out: &mut Vec<u8>, v: u32) { for shift in [24, 16, 8, 0] { out.push(((v >> shift) & 0xff) as u8); } }    // 1.5.3 big-endian

/// 1.5.5 Variable Byte Integer: 7 data bits per byte, least significant group first, bit 7 = "more bytes follow".
fn put_vbi(out: &mut Vec<u8>, value: u32) {
    assert!(value <= 268_435_455, "not representable as a Variable Byte Integer");
    let mut x = value;
    loop {
        let mut encoded = (x % 128) as u8;
        x /= 128;
        if x > 0 { encoded |= 128; }
        out.push(encoded);
        if x == 0 { break; }
    }
}

/// 1.5.6 Binary Data / 1.5.4 UTF-8 Encoded String: two byte big-endian length, then that many bytes.
fn put_bin(out: &mut Vec<u8>, data: &[u8]) {
    assert!(data.len() <= 65_535);
    put_u16(out, data.len() as u16);
    out.extend_from_slice(data);
}
fn put_str(out: &mut Vec<u8>, s: &str) { put_bin(out, s.as_bytes()); }

/// 2.2.2.2: identifier (a Variable Byte Integer; all defined ones fit in one byte) followed by the value.
fn put_prop(out: &mut Vec<u8>, p: &RefProp) {
    put_vbi(out, p.id as u32);
    match &p.value {
        RefVal::Byte(v) => out.push(*v),
        RefVal::U16(v) => put_u16(out, *v),
        RefVal::U32(v) => put_u32(out, *v),
        RefVal::Vbi(v) => put_vbi(out, *v),
        RefVal::Str(s) => put_str(out, s),
        RefVal::Bin(b) => put_bin(out, b),
        RefVal::Pair(k, v) => { put_str(out, k); put_str(out, v); }       // 1.5.7 UTF-8 String Pair
    }
}

/// The properties WITHOUT the leading Property Length.
fn props_bytes(props: &[RefProp]) -> Vec<u8> { let mut out = Vec::new(); for p in props { put_prop(&mut out, p); } out }

/// A control packet cut into its parts so that the negative family can damage one part at a time:
/// fixed header byte 1 | head (variable header up to the Property Length) | property section (None = this form /
/// version has no Property Length at all) | tail (payload).
#[derive(Clone, Debug)]
struct Parts { first_byte: u8, head: Vec<u8>, props: Option<Vec<u8>>, tail: Vec<u8> }

/// 2.1.1: byte 1 = packet type << 4 | flags; then Remaining Length as a Variable Byte Integer = number of bytes that
/// follow.  2.2.2.1: Property Length = Variable Byte Integer, number of property bytes, not counting itself.
fn assemble(parts: &Parts) -> Vec<u8> { assemble_declaring(parts, None, None) }

/// Same, but the declared Remaining Length / Property Length can be forced to a wrong value (negative family only).
fn assemble_declaring(parts: &Parts, remaining_length: Option<u32>, property_length: Option<u32>) -> Vec<u8> {
    let mut body = parts.head.clone();
    if let Some(props) = &parts.props {
        put_vbi(&mut body, property_length.unwrap_or(props.len() as u32));
        body.extend_from_slice(props);
    }
    body.extend_from_slice(&parts.tail);
    let mut out = vec![parts.first_byte];
    put_vbi(&mut out, remaining_length.unwrap_or(body.len() as u32));
    out.extend_from_slice(&body);
    out
}

// 2.1.2 Table 2-1 packet types; 2.1.3 Table 2-2 flags (all reserved 0000 except PUBREL 0010 and PUBLISH dup/qos/retain).
const T_CONNACK: u8 = 2;
const T_PUBLISH: u8 = 3;
const T_PUBACK: u8 = 4;
const T_PUBREC: u8 = 5;
const T_PUBREL: u8 = 6;
const T_PUBCOMP: u8 = 7;
const T_SUBACK: u8 = 9;
const T_UNSUBACK: u8 = 11;
const T_PINGRESP: u8 = 13;
const T_DISCONNECT: u8 = 14;

fn ack_parts(first_byte: u8, a: &RefAck, v5: bool) -> Parts {
    let mut head = Vec::new();
    put_u16(&mut head, a.packet_id);                                       // 3.4.2: Packet Identifier
    let mut props = None;
    if v5 {
        match a.form {
            RefForm::Bare => {}                                            // remaining length 2: Reason Code 0x00 implied
            RefForm::ReasonOnly => head.push(a.reason),                    // remaining length 3: no Property Length
            RefForm::Full => { head.push(a.reason); props = Some(props_bytes(&a.props)); }
        }
    }                                                                      // 3.1.1 3.4.2: only the Packet Identifier
    Parts { first_byte, head, props, tail: Vec::new() }
}

fn parts(p: &RefServerPacket, v5: bool) -> Parts {
    let section = |props: &Vec<RefProp>| if v5 { Some(props_bytes(props)) } else { None };
    match p {
        // 3.2.2: Connect Acknowledge Flags (bit 0 = Session Present), Reason Code / Return code, [v5 Properties]
        RefServerPacket::Connack { session_present, reason, props } =>
            Parts { first_byte: T_CONNACK << 4, head: vec![*session_present as u8, *reason], props: section(props), tail: Vec::new() },
        // 3.3.1: flags = DUP(bit 3) QoS(bits 2-1) RETAIN(bit 0); 3.3.2: Topic Name, Packet Identifier only if QoS > 0,
        // [v5 Properties]; 3.3.3: payload = the rest
        RefServerPacket::Publish { dup, qos, retain, topic, packet_id, props, payload } => {
            let first_byte = (T_PUBLISH << 4) | ((*dup as u8) << 3) | ((*qos & 3) << 1) | (*retain as u8);
            let mut head = Vec::new();
            put_str(&mut head, topic);
            if *qos & 3 != 0 { put_u16(&mut head, *packet_id); }
            Parts { first_byte, head, props: section(props), tail: payload.clone() }
        }
        RefServerPacket::Puback(a) => ack_parts(T_PUBACK << 4, a, v5),
        RefServerPacket::Pubrec(a) => ack_parts(T_PUBREC << 4, a, v5),
        RefServerPacket::Pubrel(a) => ack_parts((T_PUBREL << 4) | 0b0010, a, v5),     // 3.6.1: bits 3..0 MUST be 0010
        RefServerPacket::Pubcomp(a) => ack_parts(T_PUBCOMP << 4, a, v5),
        // 3.9.2: Packet Identifier, [v5 Properties]; 3.9.3: one Reason Code / Return Code per Topic Filter
        RefServerPacket::Suback { packet_id, props, reasons } => {
            let mut head = Vec::new();
            put_u16(&mut head, *packet_id);
            Parts { first_byte: T_SUBACK << 4, head, props: section(props), tail: reasons.clone() }
        }
        // 3.11.2 / 3.11.3: v5 like SUBACK; 3.1.1 3.11: Packet Identifier only, no payload
        RefServerPacket::Unsuback { packet_id, props, reasons } => {
            let mut head = Vec::new();
            put_u16(&mut head, *packet_id);
            Parts { first_byte: T_UNSUBACK << 4, head, props: section(props), tail: if v5 { reasons.clone() } else { Vec::new() } }
        }
        // 3.13: no variable header, no payload
        RefServerPacket::Pingresp => Parts { first_byte: T_PINGRESP << 4, head: Vec::new(), props: None, tail: Vec::new() },
        // 3.14.2: Reason Code, Properties; both may be omitted (3.14.2.1, 3.14.2.2.1).  In 3.1.1 the packet has no
        // variable header (and is only ever sent by the client, 3.1.1 section 3.14).
        RefServerPacket::Disconnect { reason, props, form } => {
            let mut head = Vec::new();
            let mut section_bytes = None;
            if v5 {
                match form {
                    RefForm::Bare => {}
                    RefForm::ReasonOnly => head.push(*reason),
                    RefForm::Full => { head.push(*reason); section_bytes = Some(props_bytes(props)); }
                }
            }
            Parts { first_byte: T_DISCONNECT << 4, head, props: section_bytes, tail: Vec::new() }
        }
    }
}

/// The bytes a conformant server puts on the wire for `p`.
pub(crate) fn ref_encode(p: &RefServerPacket, version5: bool) -> Vec<u8> { assemble(&parts(p, version5)) }

// ------------------------------------------------------------------------------------------------------------------
// 3. The logical packet a faithful decoder must produce
// ------------------------------------------------------------------------------------------------------------------

// Reason code tables, transcribed from the specification (value -> name), then mapped onto the crate's enum by NAME.
fn connack_code(c: u8) -> ConnectReasonCode {                              // 3.2.2.2 Table 3-1
    use ConnectReasonCode::*;
    match c {
        0x00 => Success, 0x80 => UnspecifiedError, 0x81 => MalformedPacket, 0x82 => ProtocolError, 0x83 => ImplementationSpecificError,
        0x84 => UnsupportedProtocolVersion, 0x85 => ClientIdentifierNotValid, 0x86 => BadUsernameOrPassword, 0x87 => NotAuthorized,
        0x88 => ServerUnavailable, 0x89 => ServerBusy, 0x8A => Banned, 0x8C => BadAuthenticationMethod, 0x90 => TopicNameInvalid,
        0x95 => PacketTooLarge, 0x97 => QuotaExceeded, 0x99 => PayloadFormatInvalid, 0x9A => RetainNotSupported, 0x9B => QosNotSupported,
        0x9C => UseAnotherServer, 0x9D => ServerMoved, 0x9F => ConnectionRateExceeded,
        _ => panic!("0x{:02x} is not a CONNACK reason code", c),
    }
}
fn connack_return_code_311(c: u8) -> ConnectReasonCode {                   // 3.1.1 3.2.2.3 Table 3.1, by meaning
    use ConnectReasonCode::*;
    match c {
        0 => Success,                          // Connection Accepted
        1 => UnsupportedProtocolVersion,       // unacceptable protocol version
        2 => ClientIdentifierNotValid,         // identifier rejected
        3 => ServerUnavailable,                // Server unavailable
        4 => BadUsernameOrPassword,            // bad user name or password
        5 => NotAuthorized,                    // not authorized
        _ => panic!("{} is a reserved 3.1.1 connect return code", c),
    }
}
fn puback_code(c: u8) -> PubackReasonCode {                                // 3.4.2.1 Table 3-4
    use PubackReasonCode::*;
    match c {
        0x00 => Success, 0x10 => NoMatchingSubscribers, 0x80 => UnspecifiedError, 0x83 => ImplementationSpecificError, 0x87 => NotAuthorized,
        0x90 => TopicNameInvalid, 0x91 => PacketIdentifierInUse, 0x97 => QuotaExceeded, 0x99 => PayloadFormatInvalid,
        _ => panic!("0x{:02x} is not a PUBACK reason code", c),
    }
}
fn pubrec_code(c: u8) -> PubrecReasonCode {                                // 3.5.2.1 Table 3-5
    use PubrecReasonCode::*;
    match c {
        0x00 => Success, 0x10 => NoMatchingSubscribers, 0x80 => UnspecifiedError, 0x83 => ImplementationSpecificError, 0x87 => NotAuthorized,
        0x90 => TopicNameInvalid, 0x91 => PacketIdentifierInUse, 0x97 => QuotaExceeded, 0x99 => PayloadFormatInvalid,
        _ => panic!("0x{:02x} is not a PUBREC reason code", c),
    }
}
fn pubrel_code(c: u8) -> PubrelReasonCode {                                // 3.6.2.1 Table 3-6
    match c { 0x00 => PubrelReasonCode::Success, 0x92 => PubrelReasonCode::PacketIdentifierNotFound, _ => panic!("0x{:02x} is not a PUBREL reason code", c) }
}
fn pubcomp_code(c: u8) -> PubcompReasonCode {                              // 3.7.2.1 Table 3-7
    match c { 0x00 => PubcompReasonCode::Success, 0x92 => PubcompReasonCode::PacketIdentifierNotFound, _ => panic!("0x{:02x} is not a PUBCOMP reason code", c) }
}
fn suback_code(c: u8) -> SubackReasonCode {                                // 3.9.3 Table 3-8
    use SubackReasonCode::*;
    match c {
        0x00 => GrantedQos0, 0x01 => GrantedQos1, 0x02 => GrantedQos2, 0x80 => UnspecifiedError, 0x83 => ImplementationSpecificError,
        0x87 => NotAuthorized, 0x8F => TopicFilterInvalid, 0x91 => PacketIdentifierInUse, 0x97 => QuotaExceeded,
        0x9E => SharedSubscriptionsNotSupported, 0xA1 => SubscriptionIdentifiersNotSupported, 0xA2 => WildcardSubscriptionsNotSupported,
        _ => panic!("0x{:02x} is not a SUBACK reason code", c),
    }
}
fn suback_return_code_311(c: u8) -> SubackReasonCode {                     // 3.1.1 3.9.3: 0x00, 0x01, 0x02 maximum QoS, 0x80 Failure
    match c { 0 => SubackReasonCode::GrantedQos0, 1 => SubackReasonCode::GrantedQos1, 2 => SubackReasonCode::GrantedQos2, 0x80 => SubackReasonCode::UnspecifiedError,
        _ => panic!("0x{:02x} is a reserved 3.1.1 SUBACK return code", c) }
}
fn unsuback_code(c: u8) -> UnsubackReasonCode {                            // 3.11.3 Table 3-9
    use UnsubackReasonCode::*;
    match c {
        0x00 => Success, 0x11 => NoSubscriptionExisted, 0x80 => UnspecifiedError, 0x83 => ImplementationSpecificError, 0x87 => NotAuthorized,
        0x8F => TopicFilterInvalid, 0x91 => PacketIdentifierInUse,
        _ => panic!("0x{:02x} is not an UNSUBACK reason code", c),
    }
}
fn disconnect_code(c: u8) -> DisconnectReasonCode {                        // 3.14.2.1 Table 3-13
    use DisconnectReasonCode::*;
    match c {
        0x00 => NormalDisconnection, 0x04 => DisconnectWithWillMessage, 0x80 => UnspecifiedError, 0x81 => MalformedPacket, 0x82 => ProtocolError,
        0x83 => ImplementationSpecificError, 0x87 => NotAuthorized, 0x89 => ServerBusy, 0x8B => ServerShuttingDown, 0x8D => KeepAliveTimeout,
        0x8E => SessionTakenOver, 0x8F => TopicFilterInvalid, 0x90 => TopicNameInvalid, 0x93 => ReceiveMaximumExceeded, 0x94 => TopicAliasInvalid,
        0x95 => PacketTooLarge, 0x96 => MessageRateTooHigh, 0x97 => QuotaExceeded, 0x98 => AdministrativeAction, 0x99 => PayloadFormatInvalid,
        0x9A => RetainNotSupported, 0x9B => QosNotSupported, 0x9C => UseAnotherServer, 0x9D => ServerMoved, 0x9E => SharedSubscriptionsNotSupported,
        0x9F => ConnectionRateExceeded, 0xA0 => MaximumConnectTime, 0xA1 => SubscriptionIdentifiersNotSupported, 0xA2 => WildcardSubscriptionsNotSupported,
        _ => panic!("0x{:02x} is not a DISCONNECT reason code", c),
    }
}

/// Read access to an ordered property list by identifier (first occurrence for the once-only ones).
struct PropView<'a>(&'a [RefProp]);
impl<'a> PropView<'a> {
    fn find(&self, id: u8) -> Option<&'a RefVal> { self.0.iter().find(|p| p.id == id).map(|p| &p.value) }
    fn byte(&self, id: u8) -> Option<u8> { self.find(id).map(|v| match v { RefVal::Byte(b) => *b, other => panic!("property 0x{:02x}: expected Byte, got {:?}", id, other) }) }
    fn flag(&self, id: u8) -> Option<bool> { self.byte(id).map(|b| match b { 0 => false, 1 => true, other => panic!("property 0x{:02x}: {} is not 0 or 1", id, other) }) }
    fn u16(&self, id: u8) -> Option<u16> { self.find(id).map(|v| match v { RefVal::U16(x) => *x, other => panic!("property 0x{:02x}: expected U16, got {:?}", id, other) }) }
    fn u32(&self, id: u8) -> Option<u32> { self.find(id).map(|v| match v { RefVal::U32(x) => *x, other => panic!("property 0x{:02x}: expected U32, got {:?}", id, other) }) }
    fn string(&self, id: u8) -> Option<String> { self.find(id).map(|v| match v { RefVal::Str(s) => s.clone(), other => panic!("property 0x{:02x}: expected Str, got {:?}", id, other) }) }
    fn binary(&self, id: u8) -> Option<Vec<u8>> { self.find(id).map(|v| match v { RefVal::Bin(b) => b.clone(), other => panic!("property 0x{:02x}: expected Bin, got {:?}", id, other) }) }
    /// User properties, in wire order (3.x.2.y "User Property ... is allowed to appear multiple times ... order is preserved")
    fn user_properties(&self) -> Option<Vec<UserProperty>> {
        let all: Vec<UserProperty> = self.0.iter().filter(|p| p.id == P_USER_PROPERTY).map(|p| match &p.value {
            RefVal::Pair(k, v) => UserProperty::new(k.clone(), v.clone()), other => panic!("user property: expected Pair, got {:?}", other) }).collect();
        if all.is_empty() { None } else { Some(all) }
    }
    /// Subscription identifiers, in wire order (3.3.2.3.8: several may be present in a PUBLISH sent by the server)
    fn subscription_identifiers(&self) -> Option<Vec<u32>> {
        let all: Vec<u32> = self.0.iter().filter(|p| p.id == P_SUBSCRIPTION_ID).map(|p| match &p.value {
            RefVal::Vbi(v) => *v, other => panic!("subscription identifier: expected Vbi, got {:?}", other) }).collect();
        if all.is_empty() { None } else { Some(all) }
    }
}

fn qos_of(v: u8) -> QualityOfService {
    match v { 0 => QualityOfService::AtMostOnce, 1 => QualityOfService::AtLeastOnce, 2 => QualityOfService::ExactlyOnce, _ => panic!("QoS {} does not exist", v) }
}

/// What is visible of an ack on the wire: (reason code, properties) after applying the omission rules and the version.
fn ack_visible(a: &RefAck, v5: bool) -> (u8, &[RefProp]) {
    if !v5 { return (0, &[]); }
    match a.form { RefForm::Bare => (0, &[]), RefForm::ReasonOnly => (a.reason, &[]), RefForm::Full => (a.reason, &a.props[..]) }
}

/// The crate::mqtt::MqttPacket a faithful decoder must produce for the bytes `ref_encode(p, version5)`.
/// In 3.1.1 mode everything that only exists in MQTT 5 is absent / default.  An empty payload is reported as None.
pub(crate) fn expected_logical(p: &RefServerPacket, version5: bool) -> MqttPacket {
    let no_props: Vec<RefProp> = Vec::new();
    match p {
        RefServerPacket::Connack { session_present, reason, props } => {
            if !version5 {
                return MqttPacket::Connack(ConnackPacket { session_present: *session_present, reason_code: connack_return_code_311(*reason), ..Default::default() });
            }
            let v = PropView(props);
            MqttPacket::Connack(ConnackPacket {
                session_present: *session_present,
                reason_code: connack_code(*reason),
                session_expiry_interval: v.u32(P_SESSION_EXPIRY),
                receive_maximum: v.u16(P_RECEIVE_MAXIMUM),
                maximum_qos: v.byte(P_MAXIMUM_QOS).map(qos_of),
                retain_available: v.flag(P_RETAIN_AVAILABLE),
                maximum_packet_size: v.u32(P_MAXIMUM_PACKET_SIZE),
                assigned_client_identifier: v.string(P_ASSIGNED_CLIENT_ID),
                topic_alias_maximum: v.u16(P_TOPIC_ALIAS_MAXIMUM),
                reason_string: v.string(P_REASON_STRING),
                user_properties: v.user_properties(),
                wildcard_subscriptions_available: v.flag(P_WILDCARD_SUB_AVAILABLE),
                subscription_identifiers_available: v.flag(P_SUB_ID_AVAILABLE),
                shared_subscriptions_available: v.flag(P_SHARED_SUB_AVAILABLE),
                server_keep_alive: v.u16(P_SERVER_KEEP_ALIVE),
                response_information: v.string(P_RESPONSE_INFO),
                server_reference: v.string(P_SERVER_REFERENCE),
                authentication_method: v.string(P_AUTH_METHOD),
                authentication_data: v.binary(P_AUTH_DATA),
            })
        }
        RefServerPacket::Publish { dup, qos, retain, topic, packet_id, props, payload } => {
            let v = PropView(if version5 { props } else { &no_props });
            MqttPacket::Publish(PublishPacket {
                packet_id: if *qos == 0 { 0 } else { *packet_id },           // no Packet Identifier on the wire for QoS 0
                topic: topic.clone(),
                qos: qos_of(*qos),
                duplicate: *dup,
                retain: *retain,
                payload: if payload.is_empty() { None } else { Some(payload.clone()) },
                payload_format: v.byte(P_PAYLOAD_FORMAT).map(|b| match b { 0 => PayloadFormatIndicator::Bytes, 1 => PayloadFormatIndicator::Utf8, _ => panic!("payload format {}", b) }),
                message_expiry_interval_seconds: v.u32(P_MESSAGE_EXPIRY),
                topic_alias: v.u16(P_TOPIC_ALIAS),
                response_topic: v.string(P_RESPONSE_TOPIC),
                correlation_data: v.binary(P_CORRELATION_DATA),
                subscription_identifiers: v.subscription_identifiers(),
                content_type: v.string(P_CONTENT_TYPE),
                user_properties: v.user_properties(),
            })
        }
        RefServerPacket::Puback(a) => { let (r, pr) = ack_visible(a, version5); let v = PropView(pr);
            MqttPacket::Puback(PubackPacket { packet_id: a.packet_id, reason_code: puback_code(r), reason_string: v.string(P_REASON_STRING), user_properties: v.user_properties() }) }
        RefServerPacket::Pubrec(a) => { let (r, pr) = ack_visible(a, version5); let v = PropView(pr);
            MqttPacket::Pubrec(PubrecPacket { packet_id: a.packet_id, reason_code: pubrec_code(r), reason_string: v.string(P_REASON_STRING), user_properties: v.user_properties() }) }
        RefServerPacket::Pubrel(a) => { let (r, pr) = ack_visible(a, version5); let v = PropView(pr);
            MqttPacket::Pubrel(PubrelPacket { packet_id: a.packet_id, reason_code: pubrel_code(r), reason_string: v.string(P_REASON_STRING), user_properties: v.user_properties() }) }
        RefServerPacket::Pubcomp(a) => { let (r, pr) = ack_visible(a, version5); let v = PropView(pr);
            MqttPacket::Pubcomp(PubcompPacket { packet_id: a.packet_id, reason_code: pubcomp_code(r), reason_string: v.string(P_REASON_STRING), user_properties: v.user_properties() }) }
        RefServerPacket::Suback { packet_id, props, reasons } => {
            let v = PropView(if version5 { props } else { &no_props });
            let reason_codes = reasons.iter().map(|c| if version5 { suback_code(*c) } else { suback_return_code_311(*c) }).collect();
            MqttPacket::Suback(SubackPacket { packet_id: *packet_id, reason_string: v.string(P_REASON_STRING), user_properties: v.user_properties(), reason_codes })
        }
        RefServerPacket::Unsuback { packet_id, props, reasons } => {
            let v = PropView(if version5 { props } else { &no_props });
            let reason_codes = if version5 { reasons.iter().map(|c| unsuback_code(*c)).collect() } else { Vec::new() };
            MqttPacket::Unsuback(UnsubackPacket { packet_id: *packet_id, reason_string: v.string(P_REASON_STRING), user_properties: v.user_properties(), reason_codes })
        }
        RefServerPacket::Pingresp => MqttPacket::Pingresp(PingrespPacket {}),
        RefServerPacket::Disconnect { reason, props, form } => {
            let (r, pr): (u8, &[RefProp]) = if !version5 { (0, &[]) } else { match form { RefForm::Bare => (0, &[]), RefForm::ReasonOnly => (*reason, &[]), RefForm::Full => (*reason, &props[..]) } };
            let v = PropView(pr);
            MqttPacket::Disconnect(DisconnectPacket { reason_code: disconnect_code(r), session_expiry_interval_seconds: v.u32(P_SESSION_EXPIRY),
                reason_string: v.string(P_REASON_STRING), user_properties: v.user_properties(), server_reference: v.string(P_SERVER_REFERENCE) })
        }
    }
}

// ------------------------------------------------------------------------------------------------------------------
// 4. Bounded test: tables from the specification, case generators, driving the real Decoder
// ------------------------------------------------------------------------------------------------------------------

#[derive(Clone, Copy, Debug, PartialEq)]
enum Ty { Byte, U16, U32, Vbi, Str, Bin, Pair }

/// 2.2.2.2 Table 2-4, all 27 defined properties with their data type.
const SPEC_PROPERTIES: [(u8, Ty); 27] = [
    (P_PAYLOAD_FORMAT, Ty::Byte), (P_MESSAGE_EXPIRY, Ty::U32), (P_CONTENT_TYPE, Ty::Str), (P_RESPONSE_TOPIC, Ty::Str), (P_CORRELATION_DATA, Ty::Bin),
    (P_SUBSCRIPTION_ID, Ty::Vbi), (P_SESSION_EXPIRY, Ty::U32), (P_ASSIGNED_CLIENT_ID, Ty::Str), (P_SERVER_KEEP_ALIVE, Ty::U16), (P_AUTH_METHOD, Ty::Str),
    (P_AUTH_DATA, Ty::Bin), (P_REQUEST_PROBLEM_INFO, Ty::Byte), (P_WILL_DELAY, Ty::U32), (P_REQUEST_RESPONSE_INFO, Ty::Byte), (P_RESPONSE_INFO, Ty::Str),
    (P_SERVER_REFERENCE, Ty::Str), (P_REASON_STRING, Ty::Str), (P_RECEIVE_MAXIMUM, Ty::U16), (P_TOPIC_ALIAS_MAXIMUM, Ty::U16), (P_TOPIC_ALIAS, Ty::U16),
    (P_MAXIMUM_QOS, Ty::Byte), (P_RETAIN_AVAILABLE, Ty::Byte), (P_USER_PROPERTY, Ty::Pair), (P_MAXIMUM_PACKET_SIZE, Ty::U32), (P_WILDCARD_SUB_AVAILABLE, Ty::Byte),
    (P_SUB_ID_AVAILABLE, Ty::Byte), (P_SHARED_SUB_AVAILABLE, Ty::Byte),
];
fn type_of(id: u8) -> Ty { SPEC_PROPERTIES.iter().find(|(i, _)| *i == id).map(|(_, t)| *t).expect("defined property") }

// Properties each server-sent packet may carry (3.2.2.3, 3.3.2.3, 3.4.2.2 .. 3.7.2.2, 3.9.2.1, 3.11.2.1, 3.14.2.2).
const CONNACK_PROPS: [u8; 17] = [P_SESSION_EXPIRY, P_RECEIVE_MAXIMUM, P_MAXIMUM_QOS, P_RETAIN_AVAILABLE, P_MAXIMUM_PACKET_SIZE, P_ASSIGNED_CLIENT_ID,
    P_TOPIC_ALIAS_MAXIMUM, P_REASON_STRING, P_USER_PROPERTY, P_WILDCARD_SUB_AVAILABLE, P_SUB_ID_AVAILABLE, P_SHARED_SUB_AVAILABLE, P_SERVER_KEEP_ALIVE,
    P_RESPONSE_INFO, P_SERVER_REFERENCE, P_AUTH_METHOD, P_AUTH_DATA];
const PUBLISH_PROPS: [u8; 8] = [P_PAYLOAD_FORMAT, P_MESSAGE_EXPIRY, P_TOPIC_ALIAS, P_RESPONSE_TOPIC, P_CORRELATION_DATA, P_USER_PROPERTY, P_SUBSCRIPTION_ID, P_CONTENT_TYPE];
const ACK_PROPS: [u8; 2] = [P_REASON_STRING, P_USER_PROPERTY];
/// 3.14.2.2.2: "The Session Expiry Interval MUST NOT be sent on a DISCONNECT by the Server [MQTT-3.14.2-2]", so it is not in this list.
const DISCONNECT_FROM_SERVER_PROPS: [u8; 3] = [P_REASON_STRING, P_USER_PROPERTY, P_SERVER_REFERENCE];
/// May appear more than once: User Property everywhere; Subscription Identifier in a PUBLISH sent by the server (3.3.2.3.8).
fn repeatable(id: u8) -> bool { id == P_USER_PROPERTY || id == P_SUBSCRIPTION_ID }

// Reason codes each packet may carry, transcribed from the specification tables.
const CONNACK_CODES: [u8; 22] = [0x00, 0x80, 0x81, 0x82, 0x83, 0x84, 0x85, 0x86, 0x87, 0x88, 0x89, 0x8A, 0x8C, 0x90, 0x95, 0x97, 0x99, 0x9A, 0x9B, 0x9C, 0x9D, 0x9F];
const PUBACK_PUBREC_CODES: [u8; 9] = [0x00, 0x10, 0x80, 0x83, 0x87, 0x90, 0x91, 0x97, 0x99];
const PUBREL_PUBCOMP_CODES: [u8; 2] = [0x00, 0x92];
const SUBACK_CODES: [u8; 12] = [0x00, 0x01, 0x02, 0x80, 0x83, 0x87, 0x8F, 0x91, 0x97, 0x9E, 0xA1, 0xA2];
const UNSUBACK_CODES: [u8; 7] = [0x00, 0x11, 0x80, 0x83, 0x87, 0x8F, 0x91];
/// 3.14.2.1 Table 3-13 minus 0x04 "Disconnect with Will Message", whose "Sent by" column says Client only.
const DISCONNECT_FROM_SERVER_CODES: [u8; 28] = [0x00, 0x80, 0x81, 0x82, 0x83, 0x87, 0x89, 0x8B, 0x8D, 0x8E, 0x8F, 0x90, 0x93, 0x94, 0x95, 0x96, 0x97, 0x98, 0x99,
    0x9A, 0x9B, 0x9C, 0x9D, 0x9E, 0x9F, 0xA0, 0xA1, 0xA2];
const CONNACK_RETURN_CODES_311: [u8; 6] = [0, 1, 2, 3, 4, 5];
const SUBACK_RETURN_CODES_311: [u8; 4] = [0x00, 0x01, 0x02, 0x80];

const LENGTHS: [usize; 5] = [0, 1, 127, 128, 300];
const PAYLOAD_LENGTHS: [usize; 4] = [0, 1, 200, 20000];
const SUBSCRIPTION_IDS: [u32; 8] = [1, 127, 128, 16383, 16384, 2_097_151, 2_097_152, 268_435_455];
const PACKET_IDS: [u16; 4] = [1, 0x00ff, 0x0100, 0xffff];
/// "all at once" is the first entry (any value >= the stream length)
const CHUNKINGS: [usize; 6] = [1 << 30, 1, 2, 3, 7, 64];

#[derive(Clone, Copy, Debug, PartialEq)]
enum Kind { Connack, Publish, Puback, Pubrec, Pubrel, Pubcomp, Suback, Unsuback, Pingresp, Disconnect }
const PROPERTY_KINDS: [Kind; 9] = [Kind::Connack, Kind::Publish, Kind::Puback, Kind::Pubrec, Kind::Pubrel, Kind::Pubcomp, Kind::Suback, Kind::Unsuback, Kind::Disconnect];
const ACK_KINDS: [Kind; 4] = [Kind::Puback, Kind::Pubrec, Kind::Pubrel, Kind::Pubcomp];

fn allowed_props(kind: Kind) -> &'static [u8] {
    match kind { Kind::Connack => &CONNACK_PROPS, Kind::Publish => &PUBLISH_PROPS, Kind::Disconnect => &DISCONNECT_FROM_SERVER_PROPS, Kind::Pingresp => &[], _ => &ACK_PROPS }
}
fn allowed_codes(kind: Kind) -> &'static [u8] {
    match kind {
        Kind::Connack => &CONNACK_CODES, Kind::Puback | Kind::Pubrec => &PUBACK_PUBREC_CODES, Kind::Pubrel | Kind::Pubcomp => &PUBREL_PUBCOMP_CODES,
        Kind::Suback => &SUBACK_CODES, Kind::Unsuback => &UNSUBACK_CODES, Kind::Disconnect => &DISCONNECT_FROM_SERVER_CODES, Kind::Publish | Kind::Pingresp => &[],
    }
}

/// A simple packet of the given kind around (reason, packet id, properties); PUBLISH is QoS 1 "t/a" with a 3 byte payload.
fn make(kind: Kind, reason: u8, packet_id: u16, props: Vec<RefProp>) -> RefServerPacket {
    let ack = |props: Vec<RefProp>| RefAck { packet_id, reason, props, form: RefForm::Full };
    match kind {
        Kind::Connack => RefServerPacket::Connack { session_present: false, reason, props },
        Kind::Publish => RefServerPacket::Publish { dup: false, qos: 1, retain: false, topic: "t/a".to_string(), packet_id, props, payload: vec![1, 2, 3] },
        Kind::Puback => RefServerPacket::Puback(ack(props)),
        Kind::Pubrec => RefServerPacket::Pubrec(ack(props)),
        Kind::Pubrel => RefServerPacket::Pubrel(ack(props)),
        Kind::Pubcomp => RefServerPacket::Pubcomp(ack(props)),
        Kind::Suback => RefServerPacket::Suback { packet_id, props, reasons: vec![reason] },
        Kind::Unsuback => RefServerPacket::Unsuback { packet_id, props, reasons: vec![reason] },
        Kind::Pingresp => RefServerPacket::Pingresp,
        Kind::Disconnect => RefServerPacket::Disconnect { reason, props, form: RefForm::Full },
    }
}
fn make_ack(kind: Kind, a: RefAck) -> RefServerPacket {
    match kind { Kind::Puback => RefServerPacket::Puback(a), Kind::Pubrec => RefServerPacket::Pubrec(a), Kind::Pubrel => RefServerPacket::Pubrel(a), Kind::Pubcomp => RefServerPacket::Pubcomp(a),
        _ => panic!("not an ack kind") }
}

/// Deterministic pseudo-random source (xorshift64) for subsets and orders; the family is the same on every run.
struct Rng(u64);
impl Rng {
    fn next(&mut self) -> u64 { self.0 ^= self.0 << 13; self.0 ^= self.0 >> 7; self.0 ^= self.0 << 17; self.0 }
    fn below(&mut self, n: usize) -> usize { (self.next() >> 16) as usize % n }
    fn shuffle<T>(&mut self, v: &mut Vec<T>) { for i in (1..v.len()).rev() { let j = self.below(i + 1); v.swap(i, j); } }
}

/// A well-formed UTF-8 string of exactly `n` bytes; with an even salt it starts with 4-, 3- and 2-byte sequences where they fit.
fn text(n: usize, salt: usize) -> String {
    let mut s = String::new();
    if salt % 2 == 0 { for piece in ["\u{1F600}", "\u{20AC}", "\u{e9}"] { if s.len() + piece.len() < n { s.push_str(piece); } } }
    while s.len() < n { s.push((b'a' + ((s.len() + salt) % 26) as u8) as char); }
    assert_eq!(s.len(), n);
    s
}
fn blob(n: usize, salt: usize) -> Vec<u8> { (0..n).map(|i| [0x00u8, 0xff, 0x80, 0x7f, 0xc0, 0x26][(i + salt) % 6]).collect() }

/// A LEGAL value for property `id`; `variant` walks through the interesting values (for strings / binary: the lengths).
fn sample(id: u8, variant: usize) -> RefProp {
    let pick16 = |xs: &[u16]| xs[variant % xs.len()];
    let pick32 = |xs: &[u32]| xs[variant % xs.len()];
    let value = match id {
        P_MESSAGE_EXPIRY | P_SESSION_EXPIRY | P_WILL_DELAY => RefVal::U32(pick32(&[0, 1, 77, 0x0102_0304, u32::MAX])),
        P_MAXIMUM_PACKET_SIZE => RefVal::U32(pick32(&[1, 128, 268_435_460, u32::MAX])),                 // 3.2.2.3.6: zero is a Protocol Error
        P_RECEIVE_MAXIMUM => RefVal::U16(pick16(&[1, 10, 0x0100, u16::MAX])),                            // 3.2.2.3.3: zero is a Protocol Error
        P_TOPIC_ALIAS => RefVal::U16(pick16(&[1, 2, 0x0100, u16::MAX])),                                 // 3.3.2.3.4: zero is not permitted
        P_TOPIC_ALIAS_MAXIMUM | P_SERVER_KEEP_ALIVE => RefVal::U16(pick16(&[0, 1, 60, 0x0100, u16::MAX])),
        P_SUBSCRIPTION_ID => RefVal::Vbi(SUBSCRIPTION_IDS[variant % SUBSCRIPTION_IDS.len()]),
        P_RESPONSE_TOPIC => RefVal::Str(text([1, 127, 128, 300][variant % 4], variant)),                // a Topic Name: at least one character (4.7.3)
        P_USER_PROPERTY => RefVal::Pair(text(LENGTHS[variant % 5], variant), text(LENGTHS[(variant / 5 + variant) % 5], variant + 1)),
        _ => match type_of(id) {
            Ty::Byte => RefVal::Byte((variant % 2) as u8),                                               // every Byte property sent by a server is 0 or 1
            Ty::Str => RefVal::Str(text(LENGTHS[variant % 5], variant)),
            Ty::Bin => RefVal::Bin(blob(LENGTHS[variant % 5], variant)),
            other => panic!("no sampler for property 0x{:02x} of type {:?}", id, other),
        },
    };
    RefProp { id, value }
}

fn summarize_props(props: &[RefProp]) -> String {
    let one = |p: &RefProp| match &p.value {
        RefVal::Byte(v) => format!("{:02x}=b{}", p.id, v), RefVal::U16(v) => format!("{:02x}=w{}", p.id, v), RefVal::U32(v) => format!("{:02x}=d{}", p.id, v),
        RefVal::Vbi(v) => format!("{:02x}=v{}", p.id, v), RefVal::Str(s) => format!("{:02x}=s[{}]", p.id, s.len()), RefVal::Bin(b) => format!("{:02x}=x[{}]", p.id, b.len()),
        RefVal::Pair(k, v) => format!("{:02x}=p[{},{}]", p.id, k.len(), v.len()),
    };
    format!("[{}]", props.iter().map(one).collect::<Vec<_>>().join(" "))
}
fn describe(p: &RefServerPacket) -> String {
    let ack = |name: &str, a: &RefAck| format!("{} id={} reason=0x{:02x} form={:?} props={}", name, a.packet_id, a.reason, a.form, summarize_props(&a.props));
    match p {
        RefServerPacket::Connack { session_present, reason, props } => format!("CONNACK sp={} reason=0x{:02x} props={}", session_present, reason, summarize_props(props)),
        RefServerPacket::Publish { dup, qos, retain, topic, packet_id, props, payload } =>
            format!("PUBLISH dup={} qos={} retain={} topic[{}] id={} payload[{}] props={}", dup, qos, retain, topic.len(), packet_id, payload.len(), summarize_props(props)),
        RefServerPacket::Puback(a) => ack("PUBACK", a), RefServerPacket::Pubrec(a) => ack("PUBREC", a), RefServerPacket::Pubrel(a) => ack("PUBREL", a), RefServerPacket::Pubcomp(a) => ack("PUBCOMP", a),
        RefServerPacket::Suback { packet_id, props, reasons } => format!("SUBACK id={} reasons={:02x?} props={}", packet_id, &reasons[..usize::min(16, reasons.len())], summarize_props(props)),
        RefServerPacket::Unsuback { packet_id, props, reasons } => format!("UNSUBACK id={} reasons={:02x?} props={}", packet_id, &reasons[..usize::min(16, reasons.len())], summarize_props(props)),
        RefServerPacket::Pingresp => "PINGRESP".to_string(),
        RefServerPacket::Disconnect { reason, props, form } => format!("DISCONNECT reason=0x{:02x} form={:?} props={}", reason, form, summarize_props(props)),
    }
}
fn hex_prefix(bytes: &[u8]) -> String {
    let shown: Vec<String> = bytes.iter().take(40).map(|b| format!("{:02x}", b)).collect();
    format!("{}{} ({} bytes)", shown.join(""), if bytes.len() > 40 { ".." } else { "" }, bytes.len())
}
fn clip(s: String, n: usize) -> String { if s.len() <= n { s } else { let mut end = n; while !s.is_char_boundary(end) { end -= 1; } format!("{}..", &s[..end]) } }
fn vname(v5: bool) -> &'static str { if v5 { "v5" } else { "v3.1.1" } }

/// What the crate's decoder did with a byte stream under one chunking.
#[derive(PartialEq)]
struct Outcome { error: Option<String>, packets: Vec<MqttPacket> }

fn panic_text(p: Box<dyn std::any::Any + Send>) -> String {
    if let Some(s) = p.downcast_ref::<&str>() { s.to_string() } else if let Some(s) = p.downcast_ref::<String>() { s.clone() } else { "non-string panic payload".to_string() }
}

/// Feeds `bytes` to a fresh Decoder in pieces of `chunk` bytes.  Err = the decoder panicked.
fn feed(bytes: &[u8], v5: bool, chunk: usize) -> Result<Outcome, String> {
    let version = if v5 { ProtocolVersion::Mqtt5 } else { ProtocolVersion::Mqtt311 };
    let run = || {
        let mut decoder = Decoder::new();
        let mut decoded: VecDeque<Box<MqttPacket>> = VecDeque::new();
        let mut error = None;
        for piece in bytes.chunks(chunk.max(1)) {
            let mut context = DecodingContext { maximum_packet_size: 0, protocol_version: version, decoded_packets: &mut decoded };
            if let Err(e) = decoder.decode_bytes(piece, &mut context) { error = Some(clip(format!("{:?}", e), 160)); break; }
        }
        Outcome { error, packets: decoded.into_iter().map(|b| *b).collect() }
    };
    std::panic::catch_unwind(std::panic::AssertUnwindSafe(run)).map_err(panic_text)
}

/// The crate's inbound validation layer on one decoded packet: Ok(None) accepted, Ok(Some(reason)) rejected, Err = panicked.
fn validation_verdict(packet: &MqttPacket) -> Result<Option<String>, String> {
    let run = || validate_packet_inbound_internal(packet, &InboundValidationContext { negotiated_settings: None }).err().map(|e| clip(format!("{:?}", e), 160));
    std::panic::catch_unwind(std::panic::AssertUnwindSafe(run)).map_err(panic_text)
}

fn normalized(p: &MqttPacket) -> MqttPacket {
    let mut q = p.clone();
    if let MqttPacket::Publish(x) = &mut q { if x.payload.as_ref().map(|v| v.is_empty()).unwrap_or(false) { x.payload = None; } }
    q
}

/// Positive check: for every chunking no error, exactly one packet, equal to `expected_logical`; and the legal packet
/// also passes the crate's inbound validation (skipped for a PUBLISH whose topic is only given by alias: the crate
/// resolves aliases between decoding and validation).
fn check_legal(p: &RefServerPacket, v5: bool) -> Result<(), String> {
    let bytes = ref_encode(p, v5);
    let expected = normalized(&expected_logical(p, v5));
    let fail = |msg: String| Err(format!("LEGAL {} {}: {} | bytes {}", vname(v5), describe(p), msg, hex_prefix(&bytes)));
    for chunk in CHUNKINGS {
        let outcome = match feed(&bytes, v5, chunk) { Ok(o) => o, Err(panic) => return fail(format!("decoder PANICKED (chunk {}): {}", chunk, panic)) };
        if let Some(e) = outcome.error { return fail(format!("rejected (chunk {}): {}", chunk, e)); }
        if outcome.packets.len() != 1 { return fail(format!("{} packets decoded instead of 1 (chunk {})", outcome.packets.len(), chunk)); }
        let got = normalized(&outcome.packets[0]);
        if got != expected { return fail(format!("decoded content differs (chunk {}): got {} expected {}", chunk, clip(format!("{:?}", got), 400), clip(format!("{:?}", expected), 400))); }
    }
    let skip_validation = matches!(p, RefServerPacket::Publish { topic, .. } if topic.is_empty());
    if !skip_validation {
        match validation_verdict(&expected) {
            Err(panic) => return fail(format!("inbound validation PANICKED: {}", panic)),
            Ok(Some(e)) => return fail(format!("decoded correctly but rejected by inbound validation: {}", e)),
            Ok(None) => {}
        }
    }
    Ok(())
}

#[derive(Clone, Copy, Debug, PartialEq)]
enum Expect {
    /// the stream is illegal: the decoder must fail, or a decoded packet must fail inbound validation
    Rejected,
    /// the stream is a legal prefix of a packet that has not fully arrived: no error and no packet yet
    StillWaiting,
}
struct Illegal { what: String, bytes: Vec<u8>, v5: bool, expect: Expect }

fn check_illegal(case: &Illegal) -> Result<(), String> {
    let fail = |msg: String| Err(format!("ILLEGAL {} {}: {} | bytes {}", vname(case.v5), case.what, msg, hex_prefix(&case.bytes)));
    let mut first: Option<(bool, Vec<MqttPacket>)> = None;
    for chunk in CHUNKINGS {
        let outcome = match feed(&case.bytes, case.v5, chunk) { Ok(o) => o, Err(panic) => return fail(format!("decoder PANICKED (chunk {}): {}", chunk, panic)) };
        match case.expect {
            Expect::StillWaiting => {
                if outcome.error.is_some() || !outcome.packets.is_empty() { return fail(format!("incomplete packet produced error {:?} / {} packets (chunk {})", outcome.error, outcome.packets.len(), chunk)); }
            }
            Expect::Rejected => {
                if outcome.error.is_none() {
                    if outcome.packets.is_empty() { return fail(format!("complete illegal packet neither rejected nor delivered (chunk {})", chunk)); }
                    let mut rejected_by_validation = false;
                    for packet in &outcome.packets {
                        match validation_verdict(packet) { Err(panic) => return fail(format!("inbound validation PANICKED: {}", panic)), Ok(Some(_)) => rejected_by_validation = true, Ok(None) => {} }
                    }
                    if !rejected_by_validation {
                        return fail(format!("ACCEPTED by decoder and by inbound validation (chunk {}): {}", chunk, clip(format!("{:?}", outcome.packets[0]), 300)));
                    }
                }
            }
        }
        let summary = (outcome.error.is_some(), outcome.packets);
        match &first { None => first = Some(summary), Some(f) => if *f != summary { return fail(format!("outcome depends on chunking (all-at-once vs chunk {})", chunk)); } }
    }
    Ok(())
}

#[derive(Default)]
struct Tally { cases: u64, fails: Vec<String>, notes: Vec<String> }
impl Tally {
    fn legal(&mut self, p: RefServerPacket, v5: bool) { self.cases += 1; if let Err(e) = check_legal(&p, v5) { self.fails.push(e); } }
    fn illegal(&mut self, what: String, bytes: Vec<u8>, v5: bool) {
        // Leniencies of this client that the wording of C03 does not forbid (it demands faithful decoding of what the specification allows, no panic,
        // chunking invariance and the size limit - not that every receiver-side Protocol Error is raised by the decoder): reported as notes, never as alarms.
        //   U+0000 inside a UTF-8 string ([MQTT-1.5.4-2]); inbound PUBLISH Subscription Identifier 0 (3.3.2.3.8); UNSUBACK reason code 0x90 (not in table 3-9)
        let lenient = what.contains("U+0000") || what.contains("Subscription Identifier 0") || (what.contains("Unsuback") && what.contains("reason code 0x90"));
        if lenient { return self.probe(what, bytes, v5); }
        self.cases += 1; if let Err(e) = check_illegal(&Illegal { what, bytes, v5, expect: Expect::Rejected }) { self.fails.push(e); } }
    fn waiting(&mut self, what: String, bytes: Vec<u8>, v5: bool) { self.cases += 1; if let Err(e) = check_illegal(&Illegal { what, bytes, v5, expect: Expect::StillWaiting }) { self.fails.push(e); } }
    /// Streams a conformant SENDER never produces, but for which the specification does not (clearly) oblige THIS
    /// layer of the receiver to object: reported as BOUNDED-NOTE, not as a failure.
    fn probe(&mut self, what: String, bytes: Vec<u8>, v5: bool) { self.cases += 1; if let Err(e) = check_illegal(&Illegal { what, bytes, v5, expect: Expect::Rejected }) { self.notes.push(e); } }
}

/// 3.2.2.3.18 says nothing about Authentication Data without Authentication Method in a CONNACK, but 3.1.2.11.10 makes
/// that a Protocol Error for CONNECT; the legal family stays on the safe side and always sends the method with the data.
fn legalize(mut props: Vec<RefProp>) -> Vec<RefProp> {
    if props.iter().any(|p| p.id == P_AUTH_DATA) && !props.iter().any(|p| p.id == P_AUTH_METHOD) { props.push(sample(P_AUTH_METHOD, 1)); }
    props
}

/// Property lists for one packet kind: nothing; every allowed property alone with every interesting value; all of them
/// together in table order / reversed / rotated / interleaved with the repeatable ones; and `random_subsets` pseudo-random
/// present/absent combinations (0..3 user properties, 0..3 subscription identifiers), each in three different orders.
fn property_lists(kind: Kind, rng: &mut Rng, random_subsets: usize) -> Vec<Vec<RefProp>> {
    let allowed = allowed_props(kind);
    let once: Vec<u8> = allowed.iter().copied().filter(|id| !repeatable(*id)).collect();
    let multi: Vec<u8> = allowed.iter().copied().filter(|id| repeatable(*id)).collect();
    let mut lists: Vec<Vec<RefProp>> = vec![Vec::new()];
    for &id in allowed {
        let variants = match type_of(id) { Ty::Pair => 25, Ty::Vbi => SUBSCRIPTION_IDS.len(), _ => 5 };
        for v in 0..variants { lists.push(vec![sample(id, v)]); }
    }
    let all: Vec<RefProp> = once.iter().enumerate().map(|(i, &id)| sample(id, i + 2)).collect();
    let mut reversed = all.clone(); reversed.reverse();
    let mut rotated = all.clone(); rotated.rotate_left(all.len() / 2);
    lists.push(all.clone()); lists.push(reversed); lists.push(rotated);
    if !multi.is_empty() {
        let mut interleaved = Vec::new();
        for (i, p) in all.iter().enumerate() { interleaved.push(sample(multi[i % multi.len()], 3 * i + 1)); interleaved.push(p.clone()); }
        let mut interleaved_reversed = interleaved.clone(); interleaved_reversed.reverse();
        let several: Vec<RefProp> = multi.iter().flat_map(|&m| (0..3).map(move |v| sample(m, 7 * v + 2))).collect();
        let mut first = several.clone(); first.extend(all.iter().cloned());
        let mut last = all.clone(); last.extend(several.iter().cloned());
        lists.push(interleaved); lists.push(interleaved_reversed); lists.push(first); lists.push(last); lists.push(several);
    }
    for _ in 0..random_subsets {
        let mut l = Vec::new();
        for &id in &once { if rng.below(2) == 0 { l.push(sample(id, rng.below(20))); } }
        for &m in &multi { for _ in 0..rng.below(4) { l.push(sample(m, rng.below(25))); } }
        let mut r = l.clone(); r.reverse();
        let mut s = l.clone(); rng.shuffle(&mut s);
        lists.push(l); lists.push(r); lists.push(s);
    }
    lists.into_iter().map(legalize).collect()
}

fn legal_family(t: &mut Tally, rng: &mut Rng) {
    let topic_lengths = [1usize, 127, 128, 300];
    let flag_combinations: Vec<(u8, bool, bool)> = (0u8..3).flat_map(|qos| [false, true].into_iter().flat_map(move |dup| [false, true].into_iter().map(move |retain| (qos, dup, retain))))
        .filter(|(qos, dup, _)| !(*qos == 0 && *dup)).collect();                                         // 3.3.1.1: DUP MUST be 0 for QoS 0 [MQTT-3.3.1-2]

    // ---- CONNACK, MQTT 5 (3.2)
    let connack_lists = property_lists(Kind::Connack, rng, 400);
    for (i, props) in connack_lists.iter().enumerate() { t.legal(RefServerPacket::Connack { session_present: i % 2 == 0, reason: 0x00, props: props.clone() }, true); }
    let refusal_props = [Vec::new(), vec![sample(P_REASON_STRING, 2)], vec![sample(P_USER_PROPERTY, 6), sample(P_SERVER_REFERENCE, 3), sample(P_REASON_STRING, 4), sample(P_USER_PROPERTY, 1)]];
    for &code in &CONNACK_CODES { for props in &refusal_props {
        t.legal(RefServerPacket::Connack { session_present: false, reason: code, props: props.clone() }, true);                 // 3.2.2.1.1: non-zero reason => Session Present 0
    } }
    // ---- CONNACK, MQTT 3.1.1 (3.1.1 3.2)
    for &code in &CONNACK_RETURN_CODES_311 { for sp in [false, true] {
        if sp && code != 0 { continue; }                                                                                       // [MQTT-3.2.2-4]
        t.legal(RefServerPacket::Connack { session_present: sp, reason: code, props: Vec::new() }, false);
    } }

    // ---- PUBLISH, MQTT 5 (3.3)
    let publish_lists = property_lists(Kind::Publish, rng, 400);
    for (i, props) in publish_lists.iter().enumerate() {
        let (qos, dup, retain) = flag_combinations[i % flag_combinations.len()];
        t.legal(RefServerPacket::Publish { dup, qos, retain, topic: text(topic_lengths[i % 4], i), packet_id: PACKET_IDS[i % 4], props: props.clone(), payload: blob([0, 1, 200][(i / 2) % 3], i) }, true);
    }
    let big = publish_lists.iter().max_by_key(|l| l.len()).unwrap().clone();
    let three = [Vec::new(), vec![sample(P_USER_PROPERTY, 8), sample(P_CONTENT_TYPE, 3), sample(P_USER_PROPERTY, 2)], big];
    for &(qos, dup, retain) in &flag_combinations { for (ti, &tl) in topic_lengths.iter().enumerate() { for &pl in &PAYLOAD_LENGTHS { for props in &three {
        t.legal(RefServerPacket::Publish { dup, qos, retain, topic: text(tl, ti), packet_id: PACKET_IDS[ti], props: props.clone(), payload: blob(pl, tl) }, true);
    } } } }
    // topic given by alias only (3.3.2.3.4: zero length Topic Name + Topic Alias)
    for v in 0..4 { for extra in [Vec::new(), vec![sample(P_USER_PROPERTY, 7)]] {
        let mut props = extra.clone(); props.push(sample(P_TOPIC_ALIAS, v)); props.extend(extra.iter().cloned());
        t.legal(RefServerPacket::Publish { dup: false, qos: (v % 3) as u8, retain: false, topic: String::new(), packet_id: 9, props, payload: blob(5, v) }, true);
    } }
    // every subscription identifier value in ONE packet, alone / interleaved with user properties / reversed
    let ids: Vec<RefProp> = (0..SUBSCRIPTION_IDS.len()).map(|v| sample(P_SUBSCRIPTION_ID, v)).collect();
    let mut ids_interleaved = Vec::new(); for (i, p) in ids.iter().enumerate() { ids_interleaved.push(p.clone()); ids_interleaved.push(sample(P_USER_PROPERTY, i)); }
    let mut ids_reversed = ids.clone(); ids_reversed.reverse();
    for props in [ids, ids_interleaved, ids_reversed] { for qos in 0..3u8 {
        t.legal(RefServerPacket::Publish { dup: false, qos, retain: true, topic: "a/b".to_string(), packet_id: 77, props: props.clone(), payload: blob(1, 0) }, true);
    } }
    // ---- PUBLISH, MQTT 3.1.1 (3.1.1 3.3)
    for &(qos, dup, retain) in &flag_combinations { for (ti, &tl) in topic_lengths.iter().enumerate() { for &pl in &PAYLOAD_LENGTHS {
        t.legal(RefServerPacket::Publish { dup, qos, retain, topic: text(tl, ti), packet_id: PACKET_IDS[ti], props: Vec::new(), payload: blob(pl, tl) }, false);
    } } }

    // ---- PUBACK / PUBREC / PUBREL / PUBCOMP (3.4 - 3.7)
    for &kind in &ACK_KINDS {
        let mut lists = property_lists(kind, rng, 10);
        lists.push(vec![RefProp { id: P_REASON_STRING, value: RefVal::Str("\u{FEFF}bom\u{FEFF}".to_string()) }]);                 // [MQTT-1.5.4-3]: U+FEFF MUST NOT be stripped
        for (ci, &code) in allowed_codes(kind).iter().enumerate() {
            for (i, props) in lists.iter().enumerate() {
                t.legal(make_ack(kind, RefAck { packet_id: PACKET_IDS[(i + ci) % 4], reason: code, props: props.clone(), form: RefForm::Full }), true);
            }
            for &id in &PACKET_IDS {
                t.legal(make_ack(kind, RefAck { packet_id: id, reason: code, props: Vec::new(), form: RefForm::ReasonOnly }), true);   // remaining length 3
                if code == 0 { t.legal(make_ack(kind, RefAck { packet_id: id, reason: 0, props: Vec::new(), form: RefForm::Bare }), true); }   // remaining length 2
            }
        }
        for &id in &PACKET_IDS { t.legal(make_ack(kind, RefAck { packet_id: id, reason: 0, props: Vec::new(), form: RefForm::Bare }), false); }
    }

    // ---- SUBACK / UNSUBACK (3.9, 3.11)
    for (kind, codes) in [(Kind::Suback, &SUBACK_CODES[..]), (Kind::Unsuback, &UNSUBACK_CODES[..])] {
        let mut code_lists: Vec<Vec<u8>> = codes.iter().map(|c| vec![*c]).collect();
        code_lists.push(codes.to_vec());
        let mut reversed = codes.to_vec(); reversed.reverse(); code_lists.push(reversed);
        code_lists.push((0..130).map(|i| codes[i % codes.len()]).collect());                                                  // payload crossing the 127/128 boundary
        code_lists.push(vec![codes[0], codes[3], codes[1]]);
        let lists = property_lists(kind, rng, 10);
        let build = |packet_id: u16, props: Vec<RefProp>, reasons: Vec<u8>| if kind == Kind::Suback { RefServerPacket::Suback { packet_id, props, reasons } } else { RefServerPacket::Unsuback { packet_id, props, reasons } };
        for (i, props) in lists.iter().enumerate() { t.legal(build(PACKET_IDS[i % 4], props.clone(), code_lists[i % code_lists.len()].clone()), true); }
        let full = lists.iter().max_by_key(|l| l.len()).unwrap().clone();
        for (i, reasons) in code_lists.iter().enumerate() { for props in [Vec::new(), full.clone()] { t.legal(build(PACKET_IDS[i % 4], props, reasons.clone()), true); } }
    }
    let mut return_code_lists: Vec<Vec<u8>> = SUBACK_RETURN_CODES_311.iter().map(|c| vec![*c]).collect();
    return_code_lists.push(SUBACK_RETURN_CODES_311.to_vec());
    return_code_lists.push((0..130).map(|i| SUBACK_RETURN_CODES_311[i % 4]).collect());
    for (i, reasons) in return_code_lists.iter().enumerate() { for &id in &PACKET_IDS { t.legal(RefServerPacket::Suback { packet_id: id, props: Vec::new(), reasons: reasons.clone() }, false); } }
    for &id in &PACKET_IDS { t.legal(RefServerPacket::Unsuback { packet_id: id, props: Vec::new(), reasons: Vec::new() }, false); }

    // ---- PINGRESP (3.13), both versions
    t.legal(RefServerPacket::Pingresp, true);
    t.legal(RefServerPacket::Pingresp, false);

    // ---- DISCONNECT sent by the server, MQTT 5 only (3.14; in 3.1.1 only the client sends DISCONNECT)
    let disconnect_lists = property_lists(Kind::Disconnect, rng, 15);
    for &code in &DISCONNECT_FROM_SERVER_CODES {
        for props in &disconnect_lists { t.legal(RefServerPacket::Disconnect { reason: code, props: props.clone(), form: RefForm::Full }, true); }
        t.legal(RefServerPacket::Disconnect { reason: code, props: Vec::new(), form: RefForm::ReasonOnly }, true);                 // remaining length 1
    }
    t.legal(RefServerPacket::Disconnect { reason: 0, props: Vec::new(), form: RefForm::Bare }, true);                              // remaining length 0
}

fn first_byte_of(kind: Kind) -> u8 {
    match kind { Kind::Connack => T_CONNACK << 4, Kind::Publish => T_PUBLISH << 4, Kind::Puback => T_PUBACK << 4, Kind::Pubrec => T_PUBREC << 4, Kind::Pubrel => (T_PUBREL << 4) | 2,
        Kind::Pubcomp => T_PUBCOMP << 4, Kind::Suback => T_SUBACK << 4, Kind::Unsuback => T_UNSUBACK << 4, Kind::Pingresp => T_PINGRESP << 4, Kind::Disconnect => T_DISCONNECT << 4 }
}
/// A reason code that is legal for the kind (0x00 is in every table).
const OK: u8 = 0x00;
/// Short, fixed property values for the truncation family (so that every cut point can be enumerated).
fn short_sample(id: u8) -> RefProp {
    let value = match type_of(id) { Ty::Str => RefVal::Str("abc".to_string()), Ty::Bin => RefVal::Bin(vec![1, 2, 3]), Ty::Pair => RefVal::Pair("k".to_string(), "vw".to_string()),
        Ty::Vbi => RefVal::Vbi(16384), _ => return sample(id, 1) };
    RefProp { id, value }
}
const ILL_FORMED_UTF8: [&[u8]; 5] = [&[0x61, 0xff], &[0xc0, 0xaf], &[0xed, 0xa0, 0x80], &[0x61, 0xe2, 0x82], &[0xf4, 0x90, 0x80, 0x80]];

fn illegal_family(t: &mut Tally) {
    let user = || sample(P_USER_PROPERTY, 6);

    // ---- a property that may appear only once, twice (2.2.2.2 / each property section: "It is a Protocol Error to include ... more than once")
    for &kind in &PROPERTY_KINDS { for &id in allowed_props(kind) {
        if repeatable(id) { continue; }
        for (a, b) in [(1usize, 1usize), (1, 2)] { for spaced in [false, true] {
            let mut props = vec![sample(id, a)]; if spaced { props.push(user()); } props.push(sample(id, b));
            t.illegal(format!("{:?}: property 0x{:02x} twice (values {} spaced={})", kind, id, if a == b { "equal" } else { "different" }, spaced), ref_encode(&make(kind, OK, 5, legalize(props)), true), true);
        } }
    } }

    // ---- a property the packet may not carry (2.2.2.2 Table 2-4 "Packet / Will Properties" column), and undefined identifiers
    for &kind in &PROPERTY_KINDS {
        for (id, _) in SPEC_PROPERTIES {
            if allowed_props(kind).contains(&id) { continue; }
            for after_user in [false, true] {
                let mut props = Vec::new(); if after_user { props.push(user()); } props.push(sample(id, 1));
                t.illegal(format!("{:?}: property 0x{:02x} is not allowed in this packet from a server (after a user property: {})", kind, id, after_user), ref_encode(&make(kind, OK, 5, props), true), true);
            }
        }
        for id in [0x00u8, 0x04, 0x05, 0x0A, 0x14, 0x1B, 0x20, 0x2B, 0x7F, 0x80, 0xFF] {
            t.illegal(format!("{:?}: undefined property identifier 0x{:02x}", kind, id), ref_encode(&make(kind, OK, 5, vec![RefProp { id, value: RefVal::Byte(0) }]), true), true);
        }
    }

    // ---- wrong fixed header flags (2.1.3 [MQTT-2.1.3-1]; 3.1.1 2.2.2 [MQTT-2.2.2-2]); PUBLISH QoS 3 (3.3.1.2 [MQTT-3.3.1-4])
    for &kind in &[Kind::Connack, Kind::Puback, Kind::Pubrec, Kind::Pubrel, Kind::Pubcomp, Kind::Suback, Kind::Unsuback, Kind::Pingresp, Kind::Disconnect] { for v5 in [true, false] {
        let good = parts(&make(kind, OK, 5, Vec::new()), v5);
        for flags in 0..16u8 {
            if flags == first_byte_of(kind) & 0x0f { continue; }
            let mut bad = good.clone(); bad.first_byte = (first_byte_of(kind) & 0xf0) | flags;
            t.illegal(format!("{:?}: fixed header flags {:04b}", kind, flags), assemble(&bad), v5);
        }
    } }
    for v5 in [true, false] { for dup in [false, true] { for retain in [false, true] { for payload in [0usize, 3] {
        t.illegal(format!("PUBLISH QoS 3 dup={} retain={} payload[{}]", dup, retain, payload),
            ref_encode(&RefServerPacket::Publish { dup, qos: 3, retain, topic: "t".to_string(), packet_id: 5, props: Vec::new(), payload: vec![7; payload] }, v5), v5);
    } } } }

    // ---- reason codes outside the specification's table for the packet
    for &kind in &[Kind::Connack, Kind::Puback, Kind::Pubrec, Kind::Pubrel, Kind::Pubcomp, Kind::Suback, Kind::Unsuback, Kind::Disconnect] { for code in 0..=255u8 {
        if allowed_codes(kind).contains(&code) { continue; }
        if kind == Kind::Disconnect && code == 0x04 { continue; }                                       // in the table, but "sent by: Client" - probed below
        let what = format!("{:?}: reason code 0x{:02x} is not in the table for this packet", kind, code);
        t.illegal(what.clone(), ref_encode(&make(kind, code, 5, Vec::new()), true), true);
        match kind {
            Kind::Puback | Kind::Pubrec | Kind::Pubrel | Kind::Pubcomp =>
                t.illegal(format!("{} (remaining length 3)", what), ref_encode(&make_ack(kind, RefAck { packet_id: 5, reason: code, props: Vec::new(), form: RefForm::ReasonOnly }), true), true),
            Kind::Disconnect => t.illegal(format!("{} (remaining length 1)", what), ref_encode(&RefServerPacket::Disconnect { reason: code, props: Vec::new(), form: RefForm::ReasonOnly }, true), true),
            Kind::Suback => t.illegal(format!("{} (second of two)", what), ref_encode(&RefServerPacket::Suback { packet_id: 5, props: Vec::new(), reasons: vec![0x00, code] }, true), true),
            Kind::Unsuback => t.illegal(format!("{} (second of two)", what), ref_encode(&RefServerPacket::Unsuback { packet_id: 5, props: Vec::new(), reasons: vec![0x00, code] }, true), true),
            _ => {}
        }
    } }
    for code in 6..=255u8 { t.illegal(format!("CONNACK return code {} is reserved (3.1.1 Table 3.1)", code), ref_encode(&RefServerPacket::Connack { session_present: false, reason: code, props: Vec::new() }, false), false); }
    for code in 0..=255u8 { if !SUBACK_RETURN_CODES_311.contains(&code) {
        t.illegal(format!("SUBACK return code 0x{:02x} is reserved (3.1.1 [MQTT-3.9.3-2])", code), ref_encode(&RefServerPacket::Suback { packet_id: 5, props: Vec::new(), reasons: vec![0x01, code] }, false), false);
    } }

    // ---- truncated property section: (a) the section ends inside a property, (b) Property Length is too small for the last property
    for &kind in &PROPERTY_KINDS { for &id in allowed_props(kind) {
        let one = props_bytes(&[short_sample(id)]);
        for lead in [false, true] {
            let prefix = if lead { props_bytes(&[user()]) } else { Vec::new() };
            let good = parts(&make(kind, OK, 5, Vec::new()), true);
            for cut in 1..one.len() {
                let mut section = prefix.clone(); section.extend_from_slice(&one[..cut]);
                let mut a = good.clone(); a.props = Some(section);
                t.illegal(format!("{:?}: property section ends {} bytes into property 0x{:02x} (lead user property: {})", kind, cut, id, lead), assemble(&a), true);
                let mut whole = prefix.clone(); whole.extend_from_slice(&one);
                let declared = (prefix.len() + cut) as u32;
                let mut b = good.clone(); b.props = Some(whole);
                t.illegal(format!("{:?}: Property Length {} cuts property 0x{:02x} after {} bytes (lead user property: {})", kind, declared, id, cut, lead), assemble_declaring(&b, None, Some(declared)), true);
            }
        }
    } }

    // ---- Remaining Length that does not match the packet
    for v5 in [true, false] { for extra in 1..=2usize {
        let mut p = parts(&RefServerPacket::Pingresp, v5); p.tail = vec![0; extra];
        t.illegal(format!("PINGRESP with remaining length {}", extra), assemble(&p), v5);
    } }
    for &kind in &[Kind::Puback, Kind::Pubrec, Kind::Pubrel, Kind::Pubcomp, Kind::Unsuback] { for body in [&[][..], &[0x00][..], &[0x00, 0x05, 0x00][..], &[0x00, 0x05, 0x00, 0x00][..]] {
        t.illegal(format!("{:?} (3.1.1) with remaining length {}", kind, body.len()), assemble(&Parts { first_byte: first_byte_of(kind), head: body.to_vec(), props: None, tail: Vec::new() }), false);
    } }
    for body in [&[][..], &[0x00][..], &[0x00, 0x00, 0x00][..]] {
        t.illegal(format!("CONNACK (3.1.1) with remaining length {}", body.len()), assemble(&Parts { first_byte: T_CONNACK << 4, head: body.to_vec(), props: None, tail: Vec::new() }), false);
        t.illegal(format!("CONNACK (v5) with remaining length {}: no Property Length", body.len().min(2)), assemble(&Parts { first_byte: T_CONNACK << 4, head: body[..body.len().min(2)].to_vec(), props: None, tail: Vec::new() }), true);
    }
    for &kind in &[Kind::Puback, Kind::Pubrec, Kind::Pubrel, Kind::Pubcomp, Kind::Suback, Kind::Unsuback] { for body in [&[][..], &[0x00][..]] {
        t.illegal(format!("{:?} (v5) with remaining length {}", kind, body.len()), assemble(&Parts { first_byte: first_byte_of(kind), head: body.to_vec(), props: None, tail: Vec::new() }), true);
    } }
    for &kind in &[Kind::Suback, Kind::Unsuback] {
        t.illegal(format!("{:?} (v5) with remaining length 2: no Property Length", kind), assemble(&Parts { first_byte: first_byte_of(kind), head: vec![0x00, 0x05], props: None, tail: Vec::new() }), true);
    }
    for (what, body) in [("remaining length 1", vec![0x00u8]), ("topic length 5 but 2 bytes follow", vec![0x00, 0x05, 0x61, 0x62]), ("no packet identifier", vec![0x00, 0x01, 0x61]), ("half a packet identifier", vec![0x00, 0x01, 0x61, 0x00])] {
        for v5 in [true, false] { t.illegal(format!("PUBLISH QoS 1: {}", what), assemble(&Parts { first_byte: 0x32, head: body.clone(), props: None, tail: Vec::new() }), v5); }
    }
    t.illegal("PUBLISH QoS 1 (v5): no Property Length".to_string(), assemble(&Parts { first_byte: 0x32, head: vec![0x00, 0x01, 0x61, 0x00, 0x05], props: None, tail: Vec::new() }), true);
    t.illegal("PUBLISH QoS 1 (v5): Property Length 5 but 2 bytes follow".to_string(), assemble(&Parts { first_byte: 0x32, head: vec![0x00, 0x01, 0x61, 0x00, 0x05, 0x05, 0x01, 0x00], props: None, tail: Vec::new() }), true);
    let with_string = |kind: Kind| parts(&make(kind, OK, 5, vec![user(), sample(P_REASON_STRING, 3)]), true);
    for &kind in &[Kind::Connack, Kind::Puback, Kind::Pubrec, Kind::Pubrel, Kind::Pubcomp, Kind::Disconnect] {
        let good = with_string(kind);
        let length = assemble(&good).len() as u32 - 3;                                                   // 1 byte type + 2 bytes remaining length (body is 130..16383 bytes)
        assert!(length >= 128 && length < 16384);
        for k in 1..=3u32 {
            let mut padded = good.clone(); padded.tail = vec![0; k as usize];
            t.illegal(format!("{:?}: {} bytes after the property section, inside the remaining length", kind, k), assemble(&padded), true);
            t.illegal(format!("{:?}: remaining length {} too small, Property Length unchanged", kind, k), assemble_declaring(&good, Some(length - k), None), true);
        }
    }
    for bytes in [vec![0x30u8, 0xff, 0xff, 0xff, 0xff, 0x01], vec![0x20, 0x80, 0x80, 0x80, 0x80, 0x00], vec![0xd0, 0x80, 0x80, 0x80, 0x80]] { for v5 in [true, false] {
        t.illegal("remaining length longer than four bytes (1.5.5)".to_string(), bytes.clone(), v5);
    } }
    // a packet that has not arrived completely is neither an error nor a packet
    let mut incomplete: Vec<(RefServerPacket, bool)> = Vec::new();
    for v5 in [true, false] {
        for &kind in &[Kind::Connack, Kind::Publish, Kind::Puback, Kind::Pubrel, Kind::Suback, Kind::Unsuback] { incomplete.push((make(kind, OK, 5, if v5 && kind != Kind::Publish { vec![sample(P_REASON_STRING, 1)] } else { Vec::new() }), v5)); }
    }
    incomplete.push((make(Kind::Disconnect, 0x8B, 0, vec![sample(P_SERVER_REFERENCE, 1)]), true));
    incomplete.push((RefServerPacket::Publish { dup: false, qos: 2, retain: true, topic: text(128, 0), packet_id: 9, props: vec![sample(P_CONTENT_TYPE, 2)], payload: blob(200, 1) }, true));
    for (p, v5) in &incomplete {
        let bytes = ref_encode(p, *v5);
        for keep in 1..bytes.len() { t.waiting(format!("first {} of {} bytes of {}", keep, bytes.len(), describe(p)), bytes[..keep].to_vec(), *v5); }
    }

    // ---- Packet Identifier 0 (2.2.1 [MQTT-2.2.1-3]/[MQTT-2.2.1-4]; 3.1.1 2.3.1 [MQTT-2.3.1-1])
    for v5 in [true, false] {
        for qos in [1u8, 2] { t.illegal(format!("PUBLISH QoS {} with packet identifier 0", qos), ref_encode(&RefServerPacket::Publish { dup: false, qos, retain: false, topic: "t".to_string(), packet_id: 0, props: Vec::new(), payload: vec![1] }, v5), v5); }
        for &kind in &ACK_KINDS { for form in [RefForm::Bare, RefForm::ReasonOnly, RefForm::Full] {
            t.illegal(format!("{:?} with packet identifier 0 ({:?})", kind, form), ref_encode(&make_ack(kind, RefAck { packet_id: 0, reason: OK, props: Vec::new(), form }), v5), v5);
        } }
        for &kind in &[Kind::Suback, Kind::Unsuback] { t.illegal(format!("{:?} with packet identifier 0", kind), ref_encode(&make(kind, OK, 0, Vec::new()), v5), v5); }
    }

    // ---- strings that are not well-formed UTF-8 (1.5.4 [MQTT-1.5.4-1]; 3.1.1 [MQTT-1.5.3-1]) or contain U+0000 ([MQTT-1.5.4-2]; 3.1.1 [MQTT-1.5.3-2])
    let mut bad_strings: Vec<(String, Vec<u8>)> = ILL_FORMED_UTF8.iter().map(|b| (format!("ill-formed UTF-8 {:02x?}", b), b.to_vec())).collect();
    bad_strings.push(("U+0000".to_string(), b"a\0b".to_vec()));
    for (label, bad) in &bad_strings {
        for v5 in [true, false] {
            let mut head = Vec::new(); put_bin(&mut head, bad); put_u16(&mut head, 5);
            t.illegal(format!("PUBLISH topic name: {}", label), assemble(&Parts { first_byte: 0x32, head, props: if v5 { Some(Vec::new()) } else { None }, tail: vec![1] }), v5);
        }
        for &kind in &PROPERTY_KINDS {
            let string_id = if kind == Kind::Publish { P_CONTENT_TYPE } else { P_REASON_STRING };
            t.illegal(format!("{:?} property 0x{:02x}: {}", kind, string_id, label), ref_encode(&make(kind, OK, 5, vec![RefProp { id: string_id, value: RefVal::Bin(bad.clone()) }]), true), true);
            // (U+0000 in user properties only for CONNACK and PUBLISH: same decoding routine everywhere, and it keeps the list of failing cases readable)
            if label == "U+0000" && kind != Kind::Connack && kind != Kind::Publish { continue; }
            for in_name in [true, false] {
                let mut section = vec![P_USER_PROPERTY];
                if in_name { put_bin(&mut section, bad); put_str(&mut section, "v"); } else { put_str(&mut section, "k"); put_bin(&mut section, bad); }
                let mut p = parts(&make(kind, OK, 5, Vec::new()), true); p.props = Some(section);
                t.illegal(format!("{:?} user property {}: {}", kind, if in_name { "name" } else { "value" }, label), assemble(&p), true);
            }
        }
    }

    // ---- values the specification calls a Protocol Error / Malformed Packet for the receiver
    for flags in [0x02u8, 0x03, 0x80, 0xfe, 0xff] { for v5 in [true, false] {                            // 3.2.2.1: bits 7-1 reserved, MUST be 0
        let mut p = parts(&make(Kind::Connack, OK, 0, Vec::new()), v5); p.head[0] = flags;
        t.illegal(format!("CONNACK acknowledge flags 0x{:02x}", flags), assemble(&p), v5);
    } }
    for id in [P_MAXIMUM_QOS, P_RETAIN_AVAILABLE, P_WILDCARD_SUB_AVAILABLE, P_SUB_ID_AVAILABLE, P_SHARED_SUB_AVAILABLE] { for value in [2u8, 0x80, 0xff] {   // 3.2.2.3.4/.5/.11/.12/.13
        t.illegal(format!("CONNACK property 0x{:02x} = {} (only 0 or 1 allowed)", id, value), ref_encode(&make(Kind::Connack, OK, 0, vec![RefProp { id, value: RefVal::Byte(value) }]), true), true);
    } }
    t.illegal("CONNACK Receive Maximum 0 (3.2.2.3.3)".to_string(), ref_encode(&make(Kind::Connack, OK, 0, vec![RefProp { id: P_RECEIVE_MAXIMUM, value: RefVal::U16(0) }]), true), true);
    t.illegal("CONNACK Maximum Packet Size 0 (3.2.2.3.6)".to_string(), ref_encode(&make(Kind::Connack, OK, 0, vec![RefProp { id: P_MAXIMUM_PACKET_SIZE, value: RefVal::U32(0) }]), true), true);
    for value in [2u8, 0xff] { t.illegal(format!("PUBLISH Payload Format Indicator {} (3.3.2.3.2)", value), ref_encode(&make(Kind::Publish, OK, 5, vec![RefProp { id: P_PAYLOAD_FORMAT, value: RefVal::Byte(value) }]), true), true); }
    for others in [false, true] {                                                                        // 3.3.2.3.8: "It is a Protocol Error if the Subscription Identifier has a value of 0"
        let mut props = vec![RefProp { id: P_SUBSCRIPTION_ID, value: RefVal::Vbi(0) }]; if others { props.insert(0, sample(P_SUBSCRIPTION_ID, 1)); props.push(user()); }
        t.illegal(format!("PUBLISH Subscription Identifier 0 (with other properties: {})", others), ref_encode(&make(Kind::Publish, OK, 5, props), true), true);
    }
    for &code in &CONNACK_CODES[1..] { t.illegal(format!("CONNACK Session Present 1 with reason 0x{:02x} (3.2.2.1.1 [MQTT-3.2.2-6])", code), ref_encode(&RefServerPacket::Connack { session_present: true, reason: code, props: Vec::new() }, true), true); }
    for &code in &CONNACK_RETURN_CODES_311[1..] { t.illegal(format!("CONNACK Session Present 1 with return code {} (3.1.1 [MQTT-3.2.2-4])", code), ref_encode(&RefServerPacket::Connack { session_present: true, reason: code, props: Vec::new() }, false), false); }
    for v5 in [true, false] { for qos in 0..3u8 {                                                         // 3.3.2.1 / 4.7.3 [MQTT-4.7.3-1]: no topic, no alias
        t.illegal(format!("PUBLISH QoS {} with zero length topic name and no topic alias", qos), ref_encode(&RefServerPacket::Publish { dup: false, qos, retain: false, topic: String::new(), packet_id: 5, props: Vec::new(), payload: vec![1] }, v5), v5);
    } }
}

/// See `Tally::probe`.
fn probe_family(t: &mut Tally) {
    // 1.5.5 [MQTT-1.5.5-1]: "The encoded value MUST use the minimum number of bytes necessary to represent the value"
    t.probe("PINGRESP with remaining length encoded as 80 00 (not minimal, [MQTT-1.5.5-1])".to_string(), vec![0xd0, 0x80, 0x00], true);
    t.probe("PUBACK with remaining length encoded as 82 00 (not minimal, [MQTT-1.5.5-1])".to_string(), vec![0x40, 0x82, 0x00, 0x00, 0x05], true);
    t.probe("PUBACK with Property Length encoded as 80 00 (not minimal, [MQTT-1.5.5-1])".to_string(), vec![0x40, 0x05, 0x00, 0x05, 0x00, 0x80, 0x00], true);
    t.probe("PUBLISH with Subscription Identifier 1 encoded as 81 80 00 (not minimal, [MQTT-1.5.5-1])".to_string(), vec![0x30, 0x09, 0x00, 0x01, 0x61, 0x04, 0x0b, 0x81, 0x80, 0x00, 0x01], true);
    // 3.3.1.1 [MQTT-3.3.1-2] (3.1.1 the same number): DUP MUST be 0 for QoS 0
    for v5 in [true, false] { t.probe("PUBLISH QoS 0 with DUP 1 ([MQTT-3.3.1-2])".to_string(), ref_encode(&RefServerPacket::Publish { dup: true, qos: 0, retain: false, topic: "t".to_string(), packet_id: 0, props: Vec::new(), payload: vec![1] }, v5), v5); }
    // 3.3.2.3.4 [MQTT-3.3.2-8]: a sender MUST NOT send Topic Alias 0 (the crate resolves aliases in a later layer)
    t.probe("PUBLISH Topic Alias 0 ([MQTT-3.3.2-8]; alias resolution is a later layer)".to_string(), ref_encode(&make(Kind::Publish, OK, 5, vec![RefProp { id: P_TOPIC_ALIAS, value: RefVal::U16(0) }]), true), true);
    // 3.3.2.1 [MQTT-3.3.2-2] / 3.3.2.3.5 [MQTT-3.3.2-14]: no wildcards in Topic Name / Response Topic
    for v5 in [true, false] { for topic in ["a/#", "+/b"] {
        t.probe(format!("PUBLISH topic name {:?} contains a wildcard ([MQTT-3.3.2-2])", topic), ref_encode(&RefServerPacket::Publish { dup: false, qos: 0, retain: false, topic: topic.to_string(), packet_id: 0, props: Vec::new(), payload: vec![1] }, v5), v5);
    } }
    t.probe("PUBLISH response topic \"a/#\" contains a wildcard ([MQTT-3.3.2-14])".to_string(), ref_encode(&make(Kind::Publish, OK, 5, vec![RefProp { id: P_RESPONSE_TOPIC, value: RefVal::Str("a/#".to_string()) }]), true), true);
    // 3.14.2.1 Table 3-13: 0x04 Disconnect with Will Message is "sent by: Client"
    for form in [RefForm::Full, RefForm::ReasonOnly] { t.probe(format!("DISCONNECT 0x04 (Disconnect with Will Message) sent by a server ({:?})", form), ref_encode(&RefServerPacket::Disconnect { reason: 0x04, props: Vec::new(), form }, true), true); }
    // 3.1.1 3.14 / Table 2.1: DISCONNECT flows Client to Server only
    t.probe("DISCONNECT sent by a server in MQTT 3.1.1 (3.1.1 Table 2.1: Client to Server only)".to_string(), vec![0xe0, 0x00], false);
    // 3.9.3 / 3.11.3: one reason code per topic filter of a SUBSCRIBE / UNSUBSCRIBE, which has at least one filter
    for v5 in [true, false] { t.probe("SUBACK without any reason code (3.9.3, [MQTT-3.8.3-2]: at least one filter)".to_string(), ref_encode(&RefServerPacket::Suback { packet_id: 5, props: Vec::new(), reasons: Vec::new() }, v5), v5); }
    t.probe("UNSUBACK without any reason code (3.11.3, [MQTT-3.10.3-2]: at least one filter)".to_string(), ref_encode(&RefServerPacket::Unsuback { packet_id: 5, props: Vec::new(), reasons: Vec::new() }, true), true);
    // 3.1.2.11.10 (CONNECT) analogue: Authentication Data without Authentication Method
    t.probe("CONNACK Authentication Data without Authentication Method".to_string(), ref_encode(&make(Kind::Connack, OK, 0, vec![sample(P_AUTH_DATA, 1)]), true), true);
}

#[test]
fn inbound_packets_from_reference_encoder_decode_faithfully() {
    let mut t = Tally::default();
    let mut rng = Rng(0x2545_f491_4f6c_dd1d);
    legal_family(&mut t, &mut rng);
    let legal = t.cases;
    illegal_family(&mut t);
    let illegal = t.cases - legal;
    probe_family(&mut t);
    let probes = t.cases - legal - illegal;
    println!("BOUNDED {} cases={} bound={} legal reference-encoded packets: 10 server packet types x 2 versions x every spec reason code x spec property tables (each alone, all, random present/absent subsets, >=3 orders, \
user properties interleaved) x string/binary lengths {{0,1,127,128,300}} x payload {{0,1,200,20000}} x subscription identifiers {{1,127,128,16383,16384,2097151,2097152,268435455}} x qos/dup/retain x topic alias \
x short ack/disconnect forms; {} illegal streams (duplicate / foreign / undefined property, flags, QoS 3, reason codes outside the table, truncated property section, remaining length mismatch and incomplete prefixes, \
packet id 0, ill-formed UTF-8 and U+0000, out-of-range values) checked against decoder + inbound validation; {} sender-side-rule probes (notes only); every stream under chunkings {{all,1,2,3,7,64}}",
        TEST, t.cases, legal, illegal, probes);
    for n in &t.notes { println!("BOUNDED-NOTE {} {}", TEST, n); }
    if t.fails.len() > 25 { println!("BOUNDED-NOTE {} {} failing cases in total, first 25 shown", TEST, t.fails.len()); }
    for f in t.fails.iter().take(25) { println!("BOUNDED-FAIL {} {}", TEST, f); }
    assert!(t.fails.is_empty(), "{} failing cases", t.fails.len());
}

/// The oracle checked against byte strings worked out by hand from the specification text (1.5.5 Table 1-1, 2.1.1, 3.2, 3.3, 3.4, 3.6, 3.9, 3.14).
#[test]
fn reference_encoder_known_vectors() {
    for (value, bytes) in [(0u32, vec![0x00u8]), (127, vec![0x7f]), (128, vec![0x80, 0x01]), (16_383, vec![0xff, 0x7f]), (16_384, vec![0x80, 0x80, 0x01]),
        (2_097_151, vec![0xff, 0xff, 0x7f]), (2_097_152, vec![0x80, 0x80, 0x80, 0x01]), (268_435_455, vec![0xff, 0xff, 0xff, 0x7f])] {
        let mut out = Vec::new(); put_vbi(&mut out, value); assert_eq!(out, bytes, "variable byte integer {}", value);
    }
    let connack = RefServerPacket::Connack { session_present: true, reason: 0, props: vec![RefProp { id: P_RECEIVE_MAXIMUM, value: RefVal::U16(10) }] };
    assert_eq!(ref_encode(&connack, true), vec![0x20, 0x06, 0x01, 0x00, 0x03, 0x21, 0x00, 0x0a]);
    assert_eq!(ref_encode(&connack, false), vec![0x20, 0x02, 0x01, 0x00]);
    let publish = RefServerPacket::Publish { dup: true, qos: 1, retain: true, topic: "a/b".to_string(), packet_id: 10, payload: b"hi".to_vec(),
        props: vec![RefProp { id: P_SUBSCRIPTION_ID, value: RefVal::Vbi(128) }, RefProp { id: P_USER_PROPERTY, value: RefVal::Pair("k".to_string(), "v".to_string()) }] };
    assert_eq!(ref_encode(&publish, true), vec![0x3b, 0x14, 0x00, 0x03, 0x61, 0x2f, 0x62, 0x00, 0x0a, 0x0a, 0x0b, 0x80, 0x01, 0x26, 0x00, 0x01, 0x6b, 0x00, 0x01, 0x76, 0x68, 0x69]);
    assert_eq!(ref_encode(&publish, false), vec![0x3b, 0x09, 0x00, 0x03, 0x61, 0x2f, 0x62, 0x00, 0x0a, 0x68, 0x69]);
    let ack = |form| RefAck { packet_id: 0x1234, reason: 0x92, props: vec![RefProp { id: P_REASON_STRING, value: RefVal::Str("x".to_string()) }], form };
    assert_eq!(ref_encode(&RefServerPacket::Pubrel(ack(RefForm::Full)), true), vec![0x62, 0x08, 0x12, 0x34, 0x92, 0x04, 0x1f, 0x00, 0x01, 0x78]);
    assert_eq!(ref_encode(&RefServerPacket::Pubrel(ack(RefForm::ReasonOnly)), true), vec![0x62, 0x03, 0x12, 0x34, 0x92]);
    assert_eq!(ref_encode(&RefServerPacket::Puback(ack(RefForm::Bare)), true), vec![0x40, 0x02, 0x12, 0x34]);
    assert_eq!(ref_encode(&RefServerPacket::Pubcomp(ack(RefForm::Full)), false), vec![0x70, 0x02, 0x12, 0x34]);
    let suback = RefServerPacket::Suback { packet_id: 1, props: Vec::new(), reasons: vec![0x01, 0x87] };
    assert_eq!(ref_encode(&suback, true), vec![0x90, 0x05, 0x00, 0x01, 0x00, 0x01, 0x87]);
    assert_eq!(ref_encode(&RefServerPacket::Unsuback { packet_id: 1, props: Vec::new(), reasons: vec![0x11] }, true), vec![0xb0, 0x04, 0x00, 0x01, 0x00, 0x11]);
    assert_eq!(ref_encode(&RefServerPacket::Unsuback { packet_id: 1, props: Vec::new(), reasons: vec![0x11] }, false), vec![0xb0, 0x02, 0x00, 0x01]);
    assert_eq!(ref_encode(&RefServerPacket::Pingresp, true), vec![0xd0, 0x00]);
    assert_eq!(ref_encode(&RefServerPacket::Disconnect { reason: 0x8b, props: Vec::new(), form: RefForm::Full }, true), vec![0xe0, 0x02, 0x8b, 0x00]);
    assert_eq!(ref_encode(&RefServerPacket::Disconnect { reason: 0x8b, props: Vec::new(), form: RefForm::ReasonOnly }, true), vec![0xe0, 0x01, 0x8b]);
    assert_eq!(ref_encode(&RefServerPacket::Disconnect { reason: 0x00, props: Vec::new(), form: RefForm::Bare }, true), vec![0xe0, 0x00]);
}
