// E-B (bounded schedule exploration, NOT a proof): the tokio driver over a scripted in-memory transport (C13).
// "hand the transport exactly the bytes the protocol engine produced, in order and without loss or duplication, under arbitrary
// partial writes, pending/would-block results and read fragmentation" and "every operation submitted through a client handle
// yields exactly one result".  Task interleavings are outside contract-based verification; this runs the REAL tokio client
// against write/read scripts and compares the transported byte stream with the one an always-accepting transport receives.
#![cfg(feature = "tokio")]
use crate::client::*;
use crate::client::config::*;
use crate::client::asynchronous::tokio::*;
use crate::client::waiter::*;
use crate::mqtt::*;
use std::pin::Pin;
use std::sync::{Arc, Mutex};
use std::task::{Context, Poll, Waker};
use std::time::Duration;
use ::tokio::io::{AsyncRead, AsyncWrite, ReadBuf};
use ::tokio::runtime::Handle;

/// one instruction of the write script: accept at most n bytes of the next write call / answer Pending until the test lifts the stall
#[derive(Copy, Clone, Debug, PartialEq)]
enum W { Accept(usize), Stall }

#[derive(Default)]
struct Shared {
    written: Vec<u8>,
    inbound: Vec<u8>,
    read_chunk: usize,
    script: std::collections::VecDeque<W>,
    stalled: bool,
    read_waker: Option<Waker>,
    write_waker: Option<Waker>,
}

struct Scripted { s: Arc<Mutex<Shared>> }

impl AsyncRead for Scripted {
    fn poll_read(self: Pin<&mut Self>, cx: &mut Context<'_>, buf: &mut ReadBuf<'_>) -> Poll<std::io::Result<()>> {
        let mut s = self.s.lock().unwrap();
        if s.inbound.is_empty() { s.read_waker = Some(cx.waker().clone()); return Poll::Pending; }
        let n = usize::min(usize::min(buf.remaining(), s.inbound.len()), s.read_chunk.max(1));
        buf.put_slice(&s.inbound[..n]);
        s.inbound.drain(..n);
        Poll::Ready(Ok(()))
    }
}

impl AsyncWrite for Scripted {
    fn poll_write(self: Pin<&mut Self>, cx: &mut Context<'_>, buf: &[u8]) -> Poll<std::io::Result<usize>> {
        let mut s = self.s.lock().unwrap();
        match s.script.front().copied() {
            None => { s.written.extend_from_slice(buf); Poll::Ready(Ok(buf.len())) }
            Some(W::Accept(k)) => { s.script.pop_front(); let n = usize::min(k.max(1), buf.len()); s.written.extend_from_slice(&buf[..n]); Poll::Ready(Ok(n)) }
            Some(W::Stall) => { s.stalled = true; s.write_waker = Some(cx.waker().clone()); Poll::Pending }
        }
    }
    fn poll_flush(self: Pin<&mut Self>, _: &mut Context<'_>) -> Poll<std::io::Result<()>> { Poll::Ready(Ok(())) }
    fn poll_shutdown(self: Pin<&mut Self>, _: &mut Context<'_>) -> Poll<std::io::Result<()>> { Poll::Ready(Ok(())) }
}

fn feed(s: &Arc<Mutex<Shared>>, bytes: &[u8]) {
    let mut g = s.lock().unwrap();
    g.inbound.extend_from_slice(bytes);
    if let Some(w) = g.read_waker.take() { w.wake(); }
}

fn publish(topic: &str, n: usize) -> PublishPacket { PublishPacket::builder(topic.to_string(), QualityOfService::AtMostOnce).with_payload(vec![0x5A; n]).build() }

/// connect, (optionally scripted) publishes, returns the bytes the transport accepted and how many publish futures resolved Ok
async fn scenario(script: Vec<W>, second_during_stall: bool, read_chunk: usize, n_publishes: usize) -> Result<(Vec<u8>, usize), String> {
    let shared = Arc::new(Mutex::new(Shared { read_chunk, ..Default::default() }));
    let fs = shared.clone();
    let factory: Box<dyn Fn() -> Pin<Box<dyn std::future::Future<Output = crate::error::GneissResult<Scripted>> + Send>> + Send + Sync> =
        Box::new(move || { let t = Scripted { s: fs.clone() }; Box::pin(async move { Ok(t) }) });
    let client = new_tokio_client(MqttClientOptions::builder().build(), ConnectOptions::builder().with_client_id("verif-driver").build(), TokioOptions::builder(Handle::current()).build(), factory);
    let connected = TokioClientEventWaiter::new_single(client.clone(), ClientEventType::ConnectionSuccess);
    client.start(None).map_err(|e| format!("start {:?}", e))?;
    let mut waited = 0;
    while shared.lock().unwrap().written.len() < 2 { ::tokio::time::sleep(Duration::from_millis(2)).await; waited += 1; if waited > 2000 { return Err("CONNECT never reached the transport".into()); } }
    feed(&shared, &[0x20, 0x03, 0x00, 0x00, 0x00]);                    // MQTT5 CONNACK, success, no properties
    ::tokio::time::timeout(Duration::from_secs(10), connected.wait()).await.map_err(|_| "no ConnectionSuccess".to_string())?.map_err(|e| format!("{:?}", e))?;
    let has_stall = script.contains(&W::Stall);
    shared.lock().unwrap().script = script.into_iter().collect();
    let mut futures = Vec::new();
    futures.push(client.publish(publish("verif/first", 24), None));
    if has_stall {
        let mut waited = 0;
        while !shared.lock().unwrap().stalled { ::tokio::time::sleep(Duration::from_millis(2)).await; waited += 1; if waited > 2000 { return Err("write script never reached its stall".into()); } }
    }
    if n_publishes > 1 && second_during_stall { futures.push(client.publish(publish("verif/second", 9), None)); ::tokio::time::sleep(Duration::from_millis(60)).await; }
    {   // the socket becomes writable again
        let mut g = shared.lock().unwrap();
        g.script.retain(|w| *w != W::Stall);
        g.stalled = false;
        if let Some(w) = g.write_waker.take() { w.wake(); }
    }
    if n_publishes > 1 && !second_during_stall { futures.push(client.publish(publish("verif/second", 9), None)); }
    let mut ok = 0;
    for f in futures { match ::tokio::time::timeout(Duration::from_secs(10), f).await { Ok(Ok(_)) => ok += 1, Ok(Err(e)) => return Err(format!("publish failed: {:?}", e)), Err(_) => return Err("a publish future never resolved".into()) } }
    let _ = client.stop(None);
    let _ = client.close();
    let w = shared.lock().unwrap().written.clone();
    Ok((w, ok))
}

#[test]
fn tokio_driver_moves_bytes_faithfully_under_partial_writes() {
    let thorough = super::tier_thorough();
    let rt = ::tokio::runtime::Builder::new_multi_thread().worker_threads(2).enable_all().build().unwrap();
    let mut cases = 0u64; let mut fails: Vec<String> = Vec::new();
    for n_pub in [1usize, 2] {
        let reference = match rt.block_on(scenario(vec![], false, 4096, n_pub)) { Ok(r) => r, Err(e) => { fails.push(format!("reference run: {}", e)); continue; } };
        let accepts: &[usize] = if thorough { &[1, 2, 3, 5, 17] } else { &[1, 3, 17] };
        let mut scripts: Vec<Vec<W>> = Vec::new();
        for a in accepts { scripts.push(vec![W::Accept(*a)]); scripts.push(vec![W::Accept(*a), W::Stall]); scripts.push(vec![W::Accept(*a), W::Accept(1), W::Stall]); scripts.push(vec![W::Stall]); }
        for script in scripts { for during in [false, true] { for chunk in [1usize, 4096] {
            if n_pub == 1 && during { continue; }
            cases += 1;
            match rt.block_on(scenario(script.clone(), during, chunk, n_pub)) {
                Ok((bytes, ok)) => {
                    if ok != n_pub { fails.push(format!("script={:?} second_during_stall={} read_chunk={} publishes={} :: {} of {} publishes resolved", script, during, chunk, n_pub, ok, n_pub)); }
                    else if bytes != reference.0 { fails.push(format!("script={:?} second_during_stall={} read_chunk={} publishes={} :: transport received {} bytes, the engine produced {} (first difference at offset {:?})",
                        script, during, chunk, n_pub, bytes.len(), reference.0.len(), bytes.iter().zip(reference.0.iter()).position(|(a, b)| a != b))); }
                }
                Err(e) => fails.push(format!("script={:?} second_during_stall={} read_chunk={} publishes={} :: {}", script, during, chunk, n_pub, e)),
            }
        } } }
    }
    println!("BOUNDED tokio_driver_moves_bytes_faithfully_under_partial_writes cases={} bound=1-2 QoS0 publishes x write scripts {{accept k of the next write, then optionally 1 more byte, then Pending until released}} k in {{1,3,17}} x second publish submitted during/after the stall x CONNACK read in 1-byte or whole chunks; real tokio client, 2 worker threads", cases);
    for f in fails.iter().take(20) { println!("BOUNDED-FAIL tokio_driver_moves_bytes_faithfully_under_partial_writes {}", f); }
    assert!(fails.is_empty());
}
