// E-B: MqttClientImpl (client/mod.rs) - lifecycle event grammar (C12), reconnect period initialisation and reset rule (C19)
use crate::client::*;
use crate::client::config::*;
use crate::encode::*;
use crate::alias::OutboundAliasResolution;
use crate::mqtt::*;
use std::sync::{Arc, Mutex};
use std::time::Duration;

#[derive(Debug, Clone, PartialEq, Eq)]
enum Ev { Attempt, Success, Failure, Disconnection, Stopped }

fn new_client(opts: MqttClientOptions) -> (MqttClientImpl, Arc<Mutex<Vec<Ev>>>) {
    let log: Arc<Mutex<Vec<Ev>>> = Arc::new(Mutex::new(Vec::new()));
    let spawner: CallbackSpawnerFunction = Box::new(|event, callback| { (callback)(event) });
    let mut c = MqttClientImpl::new(opts, ConnectOptions::builder().with_client_id("verif").build(), spawner);
    let l2 = log.clone();
    let listener: ClientEventListener = Arc::new(move |e: Arc<ClientEvent>| {
        let ev = match &*e { ClientEvent::ConnectionAttempt(_) => Some(Ev::Attempt), ClientEvent::ConnectionSuccess(_) => Some(Ev::Success), ClientEvent::ConnectionFailure(_) => Some(Ev::Failure),
            ClientEvent::Disconnection(_) => Some(Ev::Disconnection), ClientEvent::Stopped(_) => Some(Ev::Stopped), _ => None };
        if let Some(ev) = ev { l2.lock().unwrap().push(ev); }
    });
    c.handle_incoming_operation(OperationOptions::AddListener(1, listener));
    (c, log)
}

fn connack_bytes(success: bool) -> Vec<u8> {
    let packet = MqttPacket::Connack(ConnackPacket { reason_code: if success { ConnectReasonCode::Success } else { ConnectReasonCode::NotAuthorized }, ..Default::default() });
    let mut enc = Encoder::new();
    enc.reset(&packet, &EncodingContext { outbound_alias_resolution: OutboundAliasResolution::default(), protocol_version: ProtocolVersion::Mqtt5 }).unwrap();
    let mut bytes = Vec::with_capacity(256);
    while enc.encode(&packet, &mut bytes).unwrap() != EncodeResult::Complete {}
    bytes
}

/// the event stream grammar of C12: ( Attempt ( Failure | Success Disconnection ) )* with Stopped only between attempts
fn grammar_ok(evs: &[Ev]) -> Result<(), String> {
    #[derive(PartialEq)] enum S { Idle, Attempting, Up }
    let mut s = S::Idle;
    for (i, e) in evs.iter().enumerate() {
        s = match (&s, e) {
            (S::Idle, Ev::Attempt) => S::Attempting,
            (S::Idle, Ev::Stopped) => S::Idle,
            (S::Attempting, Ev::Failure) => S::Idle,
            (S::Attempting, Ev::Success) => S::Up,
            (S::Up, Ev::Disconnection) => S::Idle,
            _ => return Err(format!("event {} ({:?}) not allowed here: {:?}", i, e, evs)),
        };
    }
    Ok(())
}

#[derive(Copy, Clone, Debug)]
enum Step { Start, StopPlain, StopWithDisconnect, Advance, TransportUp, TransportDown, ConnackOk, ConnackBad, ServiceAndFlush, Shutdown }
const STEPS: [Step; 10] = [Step::Start, Step::StopPlain, Step::StopWithDisconnect, Step::Advance, Step::TransportUp, Step::TransportDown, Step::ConnackOk, Step::ConnackBad, Step::ServiceAndFlush, Step::Shutdown];

/// drives the client the way the two event loops do: apply the optional transition, or the outcome the "transport" reports
fn run(steps: &[Step]) -> Result<(), String> {
    let (mut c, log) = new_client(MqttClientOptions::builder().build());
    let mut loop_alive = true;
    let mut transition = |c: &mut MqttClientImpl, st: ClientImplState, alive: &mut bool| {
        if c.transition_to_state(st).is_err() { *alive = false; }      // both event loops exit when a transition fails
    };
    let mut events_at_close: Option<usize> = None;
    for st in steps {
        if !loop_alive { break; }
        if matches!(st, Step::Shutdown) && events_at_close.is_none() { events_at_close = Some(log.lock().unwrap().len()); }
        match st {
            Step::Start => c.handle_incoming_operation(OperationOptions::Start(None)),
            Step::StopPlain => c.handle_incoming_operation(OperationOptions::Stop(StopOptionsInternal { disconnect: None })),
            Step::StopWithDisconnect => c.handle_incoming_operation(OperationOptions::Stop(StopOptionsInternal { disconnect: Some(Box::new(MqttPacket::Disconnect(DisconnectPacket::default()))) })),
            Step::Shutdown => {
                c.handle_incoming_operation(OperationOptions::Shutdown());
                // every state loop of both drivers evaluates the optional transition right after handling an operation, before anything else can happen
                if let Some(next) = c.compute_optional_state_transition() { transition(&mut c, next, &mut loop_alive); }
            }
            Step::Advance => { if let Some(next) = c.compute_optional_state_transition() { transition(&mut c, next, &mut loop_alive); } }
            Step::TransportUp => { if c.get_current_state() == ClientImplState::Connecting { transition(&mut c, ClientImplState::Connected, &mut loop_alive); } }
            Step::TransportDown => {
                match c.get_current_state() {
                    ClientImplState::Connecting | ClientImplState::Connected => transition(&mut c, ClientImplState::PendingReconnect, &mut loop_alive),
                    ClientImplState::PendingReconnect => transition(&mut c, ClientImplState::Connecting, &mut loop_alive),
                    _ => {}
                }
            }
            Step::ConnackOk | Step::ConnackBad => {
                if c.get_current_state() == ClientImplState::Connected {
                    let mut out = Vec::with_capacity(4096);
                    let _ = c.handle_service(&mut out);
                    if !out.is_empty() { let _ = c.handle_write_completion(); }
                    if c.handle_incoming_bytes(&connack_bytes(matches!(st, Step::ConnackOk))).is_err() { transition(&mut c, ClientImplState::PendingReconnect, &mut loop_alive); }
                }
            }
            Step::ServiceAndFlush => {
                if c.get_current_state() == ClientImplState::Connected {
                    let mut out = Vec::with_capacity(4096);
                    let r = c.handle_service(&mut out);
                    let r2 = if !out.is_empty() { c.handle_write_completion() } else { Ok(()) };
                    if r.is_err() || r2.is_err() { transition(&mut c, ClientImplState::PendingReconnect, &mut loop_alive); }
                }
            }
        }
    }
    // C12 "a stop request that no later start supersedes always leads, in bounded time once the transport reacts, to a single
    // Stopped event": if the last request was a stop, a healthy transport + a broker that answers (CONNACK, flushes) must bring
    // the client to Stopped within a few driver rounds
    let last_request = steps.iter().rev().find(|s| matches!(s, Step::Start | Step::StopPlain | Step::StopWithDisconnect | Step::Shutdown));
    let closed = steps.iter().any(|s| matches!(s, Step::Shutdown));      // close is terminal: later requests are moot
    if loop_alive && !closed && matches!(last_request, Some(Step::StopPlain) | Some(Step::StopWithDisconnect)) {
        for _ in 0..8 {
            if c.get_current_state() == ClientImplState::Stopped { break; }
            if let Some(next) = c.compute_optional_state_transition() { transition(&mut c, next, &mut loop_alive); continue; }
            if c.get_current_state() == ClientImplState::Connected {
                // the transport reacts: whatever is pending gets written and flushed, the broker answers the CONNECT
                let mut out = Vec::with_capacity(4096);
                let r = c.handle_service(&mut out);
                let r2 = if !out.is_empty() { c.handle_write_completion() } else { Ok(()) };
                let r3 = if r.is_ok() && r2.is_ok() && c.get_protocol_state() == crate::protocol::ProtocolStateType::PendingConnack { c.handle_incoming_bytes(&connack_bytes(true)) } else { Ok(()) };
                if r.is_err() || r2.is_err() || r3.is_err() { transition(&mut c, ClientImplState::PendingReconnect, &mut loop_alive); }
            }
            if !loop_alive { break; }
        }
        if loop_alive && c.get_current_state() != ClientImplState::Stopped {
            return Err(format!("stop requested last, but the client is still {} after 8 driver rounds against a responsive transport; events {:?}", c.get_current_state(), log.lock().unwrap().clone()));
        }
    }
    let evs = log.lock().unwrap().clone();
    grammar_ok(&evs)?;
    // C12 "close is terminal": once close() has been requested no new connection attempt is ever made
    // (a start() that this harness slips in between the close request and the driver's next transition check is not something the real loops
    // can produce - they act on every operation before reading the next one - so such histories are not judged)
    let first_close = steps.iter().position(|s| matches!(s, Step::Shutdown));
    let restarted = first_close.map(|i| steps[i..].iter().any(|s| matches!(s, Step::Start))).unwrap_or(false);
    if let (Some(n), false) = (events_at_close, restarted) { if evs[n..].iter().any(|e| *e == Ev::Attempt) { return Err(format!("a connection attempt was made after close(): events {:?}, close requested after event {}", evs, n)); } }
    // "the loop never dies": a transition may only fail ... never (close is the only terminal)
    if !loop_alive { return Err(format!("event loop would exit (a transition returned Err); events so far {:?}", evs)); }
    Ok(())
}

#[test]
fn client_event_grammar_and_loop_survival() {
    let depth = if super::tier_thorough() { 7 } else { 6 };
    let mut cases = 0u64;
    let mut fails: Vec<String> = Vec::new();
    let mut stack: Vec<Vec<Step>> = vec![vec![]];
    while let Some(seq) = stack.pop() {
        if seq.len() == depth {
            cases += 1;
            if let Err(e) = run(&seq) { if fails.len() < 30 { fails.push(format!("{:?} :: {}", seq, e)); } }
            continue;
        }
        for s in STEPS.iter() {
            if seq.is_empty() && !matches!(s, Step::Start) { continue; }           // every interesting history starts with start()
            let mut n = seq.clone(); n.push(*s); stack.push(n);
        }
    }
    // the same grammar from an established connection (prefix start, connecting, transport up, CONNACK) followed by every suffix of length 4/5
    let prefix = [Step::Start, Step::Advance, Step::TransportUp, Step::ConnackOk];
    let sdepth = if super::tier_thorough() { 5 } else { 4 };
    let mut stack: Vec<Vec<Step>> = vec![prefix.to_vec()];
    while let Some(seq) = stack.pop() {
        if seq.len() == prefix.len() + sdepth {
            cases += 1;
            if let Err(e) = run(&seq) { if fails.len() < 30 { fails.push(format!("{:?} :: {}", seq, e)); } }
            continue;
        }
        for s in STEPS.iter() { let mut n = seq.clone(); n.push(*s); stack.push(n); }
    }
    println!("BOUNDED client_event_grammar_and_loop_survival cases={} bound=all step sequences of length {} over {} driver steps (start/stop/stop+DISCONNECT/close/transport up-down/CONNACK ok-bad/service), plus every suffix of length {} after an established connection", cases, depth, STEPS.len(), sdepth);
    for f in &fails { println!("BOUNDED-FAIL client_event_grammar_and_loop_survival {}", f); }
    assert!(fails.is_empty());
}

/// C19: the first reconnect period is the normalized base; it never exceeds the effective maximum
#[test]
fn client_new_initial_period_normalized() {
    let ms = [0u64, 1, 500, 1000, 1500, 120_000, 10_000_000];
    let mut cases = 0;
    for b in ms { for m in ms {
        let mut ob = MqttClientOptions::builder();
        ob.with_base_reconnect_period(Duration::from_millis(b)).with_max_reconnect_period(Duration::from_millis(m)).with_reconnect_period_jitter(ExponentialBackoffJitterType::None);
        let (mut c, _) = new_client(ob.build());
        let eff_max = Duration::from_millis(u64::max(u64::max(b, m), 1000));
        let eff_base = Duration::from_millis(u64::min(b, m));
        let mut expect = eff_base;
        for k in 0..12 {
            let w = c.advance_reconnect_period();
            cases += 1;
            if w != expect || w > eff_max {
                println!("BOUNDED-FAIL client_new_initial_period_normalized base={}ms max={}ms k={} wait={:?} expected={:?} effective_max={:?}", b, m, k, w, expect, eff_max);
                panic!("wrong back-off");
            }
            expect = std::cmp::min(expect * 2, eff_max);
        }
    } }
    // uniform jitter: always within [0, period], never panics (base 0 included)
    for b in ms { let mut ob = MqttClientOptions::builder(); ob.with_base_reconnect_period(Duration::from_millis(b)).with_max_reconnect_period(Duration::from_millis(60_000));
        let (mut c, _) = new_client(ob.build());
        let mut bound = Duration::from_millis(u64::min(b, 60_000));
        let eff_max = Duration::from_millis(u64::max(b, 60_000));
        for _ in 0..10 { let w = c.advance_reconnect_period(); cases += 1; assert!(w <= bound, "jittered wait above the period"); bound = std::cmp::min(bound * 2, eff_max); } }
    println!("BOUNDED client_new_initial_period_normalized cases={} bound=7x7 base/max periods x 12 consecutive waits, + uniform jitter", cases);
}

/// C19: "the sequence restarts from the base period only after a connection has stayed established longer than the configured
/// stability period" - every history of attempt outcomes up to the bound, against the closed form w(k) = min(base*2^k, max).
#[derive(Copy, Clone, Debug, PartialEq)]
enum Outcome { TransportFails, HandshakeRejectedLate, UpShort, UpLong }

fn backoff_history(outcomes: &[Outcome]) -> Result<(), String> {
    let base = Duration::from_millis(100);
    let max = Duration::from_secs(10);
    let stability = Duration::from_millis(500);
    let longer = Duration::from_millis(650);
    let mut ob = MqttClientOptions::builder();
    ob.with_base_reconnect_period(base).with_max_reconnect_period(max).with_reconnect_stability_reset_period(stability).with_reconnect_period_jitter(ExponentialBackoffJitterType::None);
    let (mut c, _log) = new_client(ob.build());
    c.handle_incoming_operation(OperationOptions::Start(None));
    c.transition_to_state(ClientImplState::Connecting).map_err(|_| "transition failed".to_string())?;
    let mut k: u32 = 0;           // consecutive attempts since the last stable connection
    for (i, o) in outcomes.iter().enumerate() {
        match o {
            Outcome::TransportFails => {}
            Outcome::HandshakeRejectedLate | Outcome::UpShort | Outcome::UpLong => {
                c.transition_to_state(ClientImplState::Connected).map_err(|_| "transition failed".to_string())?;
                let mut out = Vec::with_capacity(4096);
                c.handle_service(&mut out).map_err(|_| "service failed".to_string())?;
                c.handle_write_completion().map_err(|_| "write completion failed".to_string())?;
                if *o == Outcome::HandshakeRejectedLate {
                    std::thread::sleep(longer);                      // the handshake itself drags on, then the server refuses
                    let _ = c.handle_incoming_bytes(&connack_bytes(false));
                } else {
                    c.handle_incoming_bytes(&connack_bytes(true)).map_err(|_| "connack rejected".to_string())?;
                    if *o == Outcome::UpLong { std::thread::sleep(longer); }
                }
            }
        }
        c.transition_to_state(ClientImplState::PendingReconnect).map_err(|_| "transition failed".to_string())?;
        if *o == Outcome::UpLong { k = 0; }
        let wait = c.advance_reconnect_period();
        let expected = std::cmp::min(base * 2u32.pow(k), max);
        if wait != expected { return Err(format!("after outcome #{} of {:?}: wait {:?}, expected min(base*2^{}, max) = {:?}", i, outcomes, wait, k, expected)); }
        k += 1;
        c.transition_to_state(ClientImplState::Connecting).map_err(|_| "transition failed".to_string())?;
    }
    Ok(())
}

#[test]
fn client_backoff_resets_only_after_stable_connection() {
    let depth = if super::tier_thorough() { 4 } else { 3 };
    let alphabet = [Outcome::TransportFails, Outcome::HandshakeRejectedLate, Outcome::UpShort, Outcome::UpLong];
    let mut seqs: Vec<Vec<Outcome>> = vec![vec![]];
    let mut all: Vec<Vec<Outcome>> = Vec::new();
    for _ in 0..depth { let mut next = Vec::new(); for s in &seqs { for a in alphabet { let mut t = s.clone(); t.push(a); next.push(t); } } all.extend(next.iter().cloned()); seqs = next; }
    let cases = all.len();
    let work = Arc::new(Mutex::new(all));
    let fails: Arc<Mutex<Vec<String>>> = Arc::new(Mutex::new(Vec::new()));
    let mut handles = Vec::new();
    for _ in 0..16 {
        let work = work.clone(); let fails = fails.clone();
        handles.push(std::thread::spawn(move || loop {
            let item = work.lock().unwrap().pop();
            match item { Some(seq) => { if let Err(e) = backoff_history(&seq) { fails.lock().unwrap().push(e); } } None => break }
        }));
    }
    for h in handles { h.join().unwrap(); }
    let fails = fails.lock().unwrap().clone();
    println!("BOUNDED client_backoff_resets_only_after_stable_connection cases={} bound=all histories of <={} attempt outcomes over {{transport fails, handshake refused after > stability period, connection lost early, connection lost after > stability period}}; base 100 ms, stability 500 ms, no jitter", cases, depth);
    for f in fails.iter().take(20) { println!("BOUNDED-FAIL client_backoff_resets_only_after_stable_connection {}", f); }
    assert!(fails.is_empty());
}

/// C11 "no configuration value the builders accept can make the client panic": the connect timeout is added to an Instant when
/// the transport comes up (establishment deadline handed to the engine).
#[test]
fn client_extreme_connect_timeout_never_panics() {
    let mut cases = 0u64; let mut fails: Vec<String> = Vec::new();
    for t in [Duration::MAX, Duration::from_secs(u64::MAX), Duration::from_secs(1 << 62), Duration::ZERO] {
        cases += 1;
        let r = std::panic::catch_unwind(|| -> Result<(), String> {
            let mut ob = MqttClientOptions::builder();
            ob.with_connect_timeout(t);
            let (mut c, _log) = new_client(ob.build());
            c.handle_incoming_operation(OperationOptions::Start(None));
            if let Some(next) = c.compute_optional_state_transition() { c.transition_to_state(next).map_err(|e| format!("to connecting {:?}", e))?; }
            if c.get_current_state() != ClientImplState::Connecting { return Err("not connecting after start".to_string()); }
            c.transition_to_state(ClientImplState::Connected).map_err(|e| format!("to connected {:?}", e))?;
            Ok(())
        });
        match r {
            Ok(Ok(())) => {}
            Ok(Err(e)) => fails.push(format!("connect_timeout={:?}: {}", t, e)),
            Err(_) => fails.push(format!("F-DURATION-OVERFLOW connect_timeout={:?}: PANIC when the transport comes up (Instant + Duration overflow)", t)),
        }
    }
    println!("BOUNDED client_extreme_connect_timeout_never_panics cases={} bound=connect timeouts {{Duration::MAX, u64::MAX s, 2^62 s, 0}}; start, transport up", cases);
    for f in &fails { println!("BOUNDED-FAIL client_extreme_connect_timeout_never_panics {}", f); }
    assert!(fails.is_empty());
}
