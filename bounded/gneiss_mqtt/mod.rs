// verif_bounded: E-B, bounded executable-contract checks (DESIGN.md 1.3).  Compiled as a #[cfg(test)] module into a
// per-run scratch copy of the real crate; drives the REAL engine.  Always labelled bounded, never counted as proved.
#![allow(dead_code, unused_imports, unused_variables, clippy::all)]

pub(crate) mod harness;
mod engine;
mod findings;
mod misc;
mod client;
mod inbound;
mod alias;
mod wire;
mod limits;
mod grammar;
mod driver_tokio;
mod driver_threaded;
mod refdec;
mod refenc;
mod extremes;
mod keepalive;

pub(crate) fn tier_thorough() -> bool { std::env::var("VERIF_TIER").map(|v| v == "thorough").unwrap_or(false) }
