// E-B (bounded, NOT a proof): C11 "no configuration value the builders accept can make the client panic" for the durations
// the builders take without any range check: per-operation ack timeouts and the connect timeout. The engine / client is
// driven through the steps at which such a duration is added to an Instant.
use super::harness::*;
use crate::client::config::*;
use crate::mqtt::*;
use std::time::Duration;

fn huge() -> Vec<Duration> { vec![Duration::MAX, Duration::from_secs(u64::MAX), Duration::from_secs(u64::MAX / 2), Duration::from_secs(1 << 62)] }

#[test]
fn extreme_ack_timeouts_never_panic() {
    let mut cases = 0u64; let mut fails: Vec<String> = Vec::new();
    for t in huge() { for kind in [Kind::Pub1, Kind::Pub2, Kind::Sub, Kind::Unsub, Kind::Pub0] { for mode in [ProtocolMode::Mqtt5, ProtocolMode::Mqtt311] {
        cases += 1;
        let r = std::panic::catch_unwind(|| -> Result<(), String> {
            let cfg = Cfg { policy: OfflineQueuePolicy::PreserveAll, drain: PostReconnectQueueDrainPolicy::None, mode, retries: None, keep_alive: None, ack_timeout: Some(t) };
            let mut h = H::new(cfg);
            h.connect(false, None).map_err(|e| format!("connect {:?}", e))?;
            let tag = h.submit(kind);
            h.service(4096).map_err(|e| format!("service {:?}", e))?;
            h.write_completion().map_err(|e| format!("write completion {:?}", e))?;
            h.advance(3_600_000);
            h.service(4096).map_err(|e| format!("second service {:?}", e))?;
            // a deadline that cannot be represented never comes due: the operation is still waiting for its acknowledgement
            if !matches!(kind, Kind::Pub0) && h.result_count(tag) != 0 { return Err(format!("operation resolved without an acknowledgement: {:?}", h.result_of(tag).map(|o| match o { Outcome::Ok(s) => s, Outcome::Err(s) => s }))); }
            if let Some(last) = h.sent_this_connection.last().map(|p| (**p).clone()) { if let Some(reply) = h.broker_reply(&last) { h.deliver(reply, 64).map_err(|e| format!("deliver {:?}", e))?; } }
            h.service(4096).map_err(|e| format!("third service {:?}", e))?;
            if h.ps.pending_write_completion { h.write_completion().map_err(|e| format!("write completion {:?}", e))?; }
            if h.result_count(tag) == 0 { if let Some(last) = h.sent_this_connection.last().map(|p| (**p).clone()) { if let Some(reply) = h.broker_reply(&last) { h.deliver(reply, 64).map_err(|e| format!("deliver {:?}", e))?; } } }
            if h.result_count(tag) != 1 { return Err(format!("{} results after the acknowledgement", h.result_count(tag))); }
            h.check_wf()
        });
        match r {
            Ok(Ok(())) => {}
            Ok(Err(e)) => fails.push(format!("ack_timeout={:?} {:?} {:?}: {}", t, kind, mode, e)),
            Err(_) => fails.push(format!("F-DURATION-OVERFLOW ack_timeout={:?} {:?} {:?}: PANIC (Instant + Duration overflow when the packet is fully written)", t, kind, mode)),
        }
    } } }
    println!("BOUNDED extreme_ack_timeouts_never_panic cases={} bound=ack timeouts {{Duration::MAX, u64::MAX s, u64::MAX/2 s, 2^62 s}} x 5 operation kinds x 2 protocol versions; submit, write, wait an hour, acknowledge", cases);
    for f in &fails { println!("BOUNDED-FAIL extreme_ack_timeouts_never_panic {}", f); }
    assert!(fails.is_empty());
}
