// E-B: outbound alias resolvers (C17) against a model of what the SERVER knows: a map alias -> topic built only from what the
// client actually put on the wire.  The LRU resolver (lru crate) is outside the Verus unit; manual and null are re-checked too.
use crate::alias::*;
use std::collections::HashMap;

fn run(factory: &OutboundAliasResolverFactoryFn, max_first: u16, max_second: u16, seq: &[(Option<u16>, usize)], reset_at: usize, topics: &[&str]) -> Result<(), String> {
    let mut resolver = (factory)();
    let mut server: HashMap<u16, String> = HashMap::new();
    let mut max = max_first;
    resolver.reset_for_new_connection(max);
    for (i, (user_alias, t)) in seq.iter().enumerate() {
        if i == reset_at { max = max_second; resolver.reset_for_new_connection(max); server.clear(); }       // reconnect: bindings never survive
        let topic = topics[*t];
        let r = resolver.resolve_and_apply_topic_alias(user_alias, topic);
        if let Some(a) = r.alias {
            if a == 0 || a > max { return Err(format!("step {}: alias {} outside 1..={}", i, a, max)); }
        }
        if max == 0 && r.alias.is_some() { return Err(format!("step {}: alias used although the server's maximum is 0", i)); }
        if r.skip_topic {
            match r.alias { None => return Err(format!("step {}: empty topic without alias", i)),
                Some(a) => if server.get(&a).map(|s| s.as_str()) != Some(topic) { return Err(format!("step {}: topic omitted for alias {} but the server has it bound to {:?}, not {:?}", i, a, server.get(&a), topic)); } }
        } else if let Some(a) = r.alias { server.insert(a, topic.to_string()); }
    }
    Ok(())
}

#[test]
fn outbound_alias_resolvers_never_mislead_the_server() {
    let thorough = super::tier_thorough();
    let topics = ["a", "b", "c", "d"];
    let depth = if thorough { 7 } else { 6 };
    let mut cases = 0u64; let mut fails: Vec<String> = Vec::new();
    // LRU: the user alias is ignored; sequences over 4 topics with maxima 0..3 and a reconnect at every position
    let mut seqs: Vec<Vec<usize>> = vec![vec![]];
    for _ in 0..depth { let mut next = Vec::new(); for s in &seqs { if s.len() + 1 <= depth { for t in 0..topics.len() { let mut n = s.clone(); n.push(t); next.push(n); } } } seqs = if next.is_empty() { seqs } else { next }; }
    for cache_max in [1u16, 2, 3] { for server_max in [0u16, 1, 2, 3, 5] { for server_max2 in [0u16, 2] {
        let factory = OutboundAliasResolverFactory::new_lru_factory(cache_max);
        for s in &seqs { for reset_at in [usize::MAX, 2, 4] {
            cases += 1;
            let seq: Vec<(Option<u16>, usize)> = s.iter().map(|t| (None, *t)).collect();
            if let Err(e) = run(&factory, server_max, server_max2, &seq, reset_at, &topics) { if fails.len() < 20 { fails.push(format!("LRU cache={} server_max={} then {} reset_at={} topics={:?} :: {}", cache_max, server_max, server_max2, reset_at, s, e)); } }
        } }
    } } }
    // manual + null: user aliases 0..=3 and none
    let aliases = [None, Some(0u16), Some(1), Some(2), Some(3)];
    let mdepth = if thorough { 5 } else { 4 };
    let mut mseqs: Vec<Vec<(Option<u16>, usize)>> = vec![vec![]];
    for _ in 0..mdepth { let mut next = Vec::new(); for s in &mseqs { for a in aliases { for t in 0..2usize { let mut n = s.clone(); n.push((a, t)); next.push(n); } } } mseqs = next; }
    for (name, factory) in [("manual", OutboundAliasResolverFactory::new_manual_factory()), ("null", OutboundAliasResolverFactory::new_null_factory())] {
        for server_max in [0u16, 2, 3] { for s in &mseqs { for reset_at in [usize::MAX, 2] {
            cases += 1;
            if let Err(e) = run(&factory, server_max, server_max, s, reset_at, &topics) { if fails.len() < 20 { fails.push(format!("{} server_max={} reset_at={} seq={:?} :: {}", name, server_max, reset_at, s, e)); } }
        } } }
    }
    println!("BOUNDED outbound_alias_resolvers_never_mislead_the_server cases={} bound=LRU: all topic sequences of length {} over 4 topics x cache 1..3 x server maximum {{0,1,2,3,5}} x reconnect positions; manual/null: all (alias,topic) sequences of length {}", cases, depth, mdepth);
    for f in &fails { println!("BOUNDED-FAIL outbound_alias_resolvers_never_mislead_the_server {}", f); }
    assert!(fails.is_empty());
}


/// C17 "no alias of 0 or above the server's Topic Alias Maximum is ever sent" at the top of the range: LRU resolver with the largest
/// configurable size against a server maximum of 65535 (and 65534), more distinct topics than aliases.
#[test]
fn outbound_lru_alias_range_at_the_u16_boundary() {
    let mut cases = 0u64; let mut fails: Vec<String> = Vec::new();
    for (cache, server_max) in [(65535u16, 65535u16), (65535, 65534), (65534, 65535)] {
        let factory = OutboundAliasResolverFactory::new_lru_factory(cache);
        let mut r = (factory)();
        r.reset_for_new_connection(server_max);
        let limit = u16::min(cache, server_max);
        for i in 0..(limit as u32 + 3) {
            cases += 1;
            let res = r.resolve_and_apply_topic_alias(&None, &format!("t/{}", i));
            match res.alias { Some(a) if a >= 1 && a <= limit => {}, other => { if fails.len() < 5 { fails.push(format!("cache={} server_max={} topic #{}: alias {:?} (skip_topic={})", cache, server_max, i, other, res.skip_topic)); } } }
        }
    }
    println!("BOUNDED outbound_lru_alias_range_at_the_u16_boundary cases={} bound=LRU sizes 65534/65535 x server maximum 65534/65535 x (maximum + 3) distinct topics", cases);
    for f in &fails { println!("BOUNDED-FAIL outbound_lru_alias_range_at_the_u16_boundary {}", f); }
    assert!(fails.is_empty());
}
