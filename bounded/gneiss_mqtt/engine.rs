// E-B: the engine functions that enter E-V only as assumed contracts (closure/iterator bodies) are run here, for real,
// on every pre-state of a small scope, against the executable form of those contracts and of wf().
//   scope: <= N user operations from {QoS0/1/2 publish, subscribe, unsubscribe} x every progress script of <= L steps from
//   {service(big buffer), service(5-byte buffer), write completion, broker acks everything, broker acks one} x 4 offline policies
//   x 2 drain policies x {MQTT5, 3.1.1} x retry limit {None, 0, 1} x session {present, absent} on reconnect.
use super::harness::*;
use crate::client::config::*;
use crate::mqtt::*;
use crate::protocol::*;
use std::collections::{HashMap, HashSet, VecDeque};

#[derive(Copy, Clone, Debug, PartialEq, Eq)]
pub(crate) enum Act { SvcBig, SvcTiny, Wc, AckAll, AckOne, Flush }
pub(crate) const ACTS: [Act; 6] = [Act::SvcBig, Act::SvcTiny, Act::Wc, Act::AckAll, Act::AckOne, Act::Flush];

fn topic_of(p: &MqttPacket) -> Option<String> {
    match p {
        MqttPacket::Publish(x) => Some(x.topic.clone()),
        MqttPacket::Subscribe(x) => x.subscriptions.first().map(|s| s.topic_filter.clone()),
        MqttPacket::Unsubscribe(x) => x.topic_filters.first().cloned(),
        _ => None,
    }
}

fn find_op(h: &H, tag: u64) -> Option<u64> {
    let t = format!("t/{}", tag);
    h.ps.operations.iter().find(|(_, op)| topic_of(&op.packet).as_deref() == Some(t.as_str())).map(|(k, _)| *k)
}

fn policy_keeps(kind: Kind, policy: OfflineQueuePolicy) -> bool {
    match policy {
        OfflineQueuePolicy::PreserveAll => true,
        OfflineQueuePolicy::PreserveAcknowledged => kind != Kind::Pub0,
        OfflineQueuePolicy::PreserveQos1PlusPublishes => kind == Kind::Pub1 || kind == Kind::Pub2,
        OfflineQueuePolicy::PreserveNothing => false,
        _ => true,
    }
}

struct Runner { h: H, acked_upto: usize, what: String }

impl Runner {
    fn step<T>(&mut self, r: crate::error::GneissResult<T>, what: &str) -> Result<(), String> {
        if let Err(e) = r { return Err(format!("unexpected engine error {} at {}", err_name(&e), what)); }
        self.h.check_wf().map_err(|e| format!("wf broken after {}: {}", what, e))?;
        if !self.h.cur_ok() { return Err(format!("current_operation dangling after {}", what)); }
        self.check_receive_maximum(what)
    }

    fn check_receive_maximum(&self, what: &str) -> Result<(), String> {
        if let Some(st) = &self.h.ps.current_settings {
            if self.h.ps.pending_publish_operations.len() > st.receive_maximum_from_server as usize {
                return Err(format!("C09 in-flight {} > receive maximum {} after {}", self.h.ps.pending_publish_operations.len(), st.receive_maximum_from_server, what));
            }
        }
        Ok(())
    }

    fn ack(&mut self, all: bool) -> Result<(), String> {
        while self.acked_upto < self.h.sent_this_connection.len() {
            let p = self.h.sent_this_connection[self.acked_upto].clone();
            self.acked_upto += 1;
            if let Some(reply) = self.h.broker_reply(&p) {
                let r = self.h.deliver(reply, 3);
                self.step(r, "broker ack")?;
                if !all { break; }
            }
        }
        Ok(())
    }

    fn act(&mut self, a: Act) -> Result<(), String> {
        match a {
            Act::SvcBig => { let r = self.h.service(4096); self.step(r, "service(4096)") }
            Act::SvcTiny => { let r = self.h.service(5); self.step(r, "service(5)") }
            Act::Wc => { if self.h.ps.pending_write_completion { let r = self.h.write_completion(); self.step(r, "write completion") } else { Ok(()) } }
            Act::AckAll => self.ack(true),
            Act::AckOne => self.ack(false),
            Act::Flush => { self.act(Act::SvcBig)?; self.act(Act::Wc) }
        }
    }
}

#[derive(Debug, Clone, Copy, PartialEq, Eq)]
enum Pos { Done, User, Resubmit, Current, PendingWc, PendingAck, HighPriority, Nowhere }

fn position(h: &H, tag: u64) -> Pos {
    if h.result_count(tag) > 0 { return Pos::Done; }
    let id = match find_op(h, tag) { Some(id) => id, None => return Pos::Nowhere };
    let s = &h.ps;
    if s.current_operation == Some(id) { return Pos::Current; }
    if s.pending_publish_operations.values().any(|v| *v == id) || s.pending_non_publish_operations.values().any(|v| *v == id) { return Pos::PendingAck; }
    if s.pending_write_completion_operations.contains(&id) { return Pos::PendingWc; }
    if s.high_priority_operation_queue.contains(&id) { return Pos::HighPriority; }
    if s.resubmit_operation_queue.contains(&id) { return Pos::Resubmit; }
    if s.user_operation_queue.contains(&id) { return Pos::User; }
    Pos::Nowhere
}

fn count_in(q: &VecDeque<u64>, id: u64) -> usize { q.iter().filter(|x| **x == id).count() }


/// contract of handle_network_event_connection_closed, evaluated around a real close()
fn check_close(r: &mut Runner, tags: &[(u64, Kind)], cfg: &Cfg, first_connection: bool) -> Result<(), String> {
    let before: Vec<(u64, Kind, Pos, Option<u64>, bool, bool)> = tags.iter().map(|(t, k)| {
        let id = find_op(&r.h, *t);
        let (dup, rel) = id.and_then(|i| r.h.ps.operations.get(&i)).map(|op| (matches!(&*op.packet, MqttPacket::Publish(p) if p.duplicate), op.qos2_pubrel.is_some())).unwrap_or((false, false));
        (*t, *k, position(&r.h, *t), id, dup, rel) }).collect();
    let interruptions_before: HashMap<u64, u32> = r.h.ps.operations.iter().map(|(k, op)| (*k, op.interruption_count)).collect();
    let in_pending_before: HashSet<u64> = before.iter().filter(|b| b.3.map(|id| r.h.ps.pending_publish_operations.values().any(|v| *v == id) || r.h.ps.pending_non_publish_operations.values().any(|v| *v == id)).unwrap_or(false)).map(|b| b.0).collect();
    let bound_before: HashMap<u64, Option<u16>> = before.iter().filter_map(|b| b.3.map(|id| (b.0, r.h.ps.operations.get(&id).and_then(|op| op_packet_id(op))))).collect();
    let x = r.h.close(); r.step(x, "connection closed")?;
    {
        let s = &r.h.ps;
        if s.state != ProtocolStateType::Disconnected { return Err("close: state is not Disconnected".into()); }
        if s.current_operation.is_some() { return Err("close: current_operation not cleared".into()); }
        if !s.pending_publish_operations.is_empty() || !s.pending_non_publish_operations.is_empty() || !s.pending_write_completion_operations.is_empty() { return Err("close: pending tables not emptied".into()); }
        if !s.high_priority_operation_queue.is_empty() { return Err("close: high priority queue not emptied".into()); }
        if !s.operation_ack_timeouts.is_empty() { return Err("close: ack timeouts not cleared".into()); }
        if s.next_ping_timepoint.is_some() || s.ping_timeout_timepoint.is_some() || s.connack_timeout_timepoint.is_some() { return Err("close: timers not cleared".into()); }
    }
    for (tag, kind, pos, id, dup, rel) in &before {
        if *pos == Pos::Done { if r.h.result_count(*tag) != 1 { return Err(format!("C01 tag {} resolved {} times", tag, r.h.result_count(*tag))); } continue; }
        let id = id.ok_or_else(|| format!("C01 tag {} unresolved but untracked before close ({:?})", tag, pos))?;
        let n_user = count_in(&r.h.ps.user_operation_queue, id);
        let n_res = count_in(&r.h.ps.resubmit_operation_queue, id);
        let done = r.h.result_count(*tag);
        let tracked = r.h.ps.operations.contains_key(&id);
        // every operation is afterwards in exactly one of {user queue, resubmit queue} or was failed exactly once
        if !((tracked && done == 0 && n_user + n_res == 1) || (!tracked && done == 1 && n_user + n_res <= 1)) {
            return Err(format!("C01 close: tag {} ({:?},{:?}) tracked={} results={} user={} resubmit={}", tag, kind, pos, tracked, done, n_user, n_res));
        }
        let keeps = policy_keeps(*kind, cfg.policy);
        let sent_unacked = *pos == Pos::PendingAck || (*pos == Pos::HighPriority && *rel) || (*pos == Pos::Current && *rel);
        let sent_unacked_for_retry = in_pending_before.contains(tag);
        let prior = interruptions_before.get(&id).copied().unwrap_or(0);
        let over_retry = sent_unacked_for_retry && matches!(cfg.retries, Some(n) if prior + 1 > n);
        let expect_err: Option<&str> =
            if over_retry { Some("MaxInterruptedRetriesExceeded") }
            else if matches!(kind, Kind::Pub1 | Kind::Pub2) && (sent_unacked || *dup) { None }       // in-flight QoS1+ retained whatever the policy (C15 exception)
            else if keeps { None } else { Some("OfflineQueuePolicyFailed") };
        match (expect_err, r.h.result_of(*tag)) {
            (None, None) => {
                let should_resubmit = matches!(kind, Kind::Pub1 | Kind::Pub2) && (sent_unacked || *dup);
                if should_resubmit != (n_res == 1) { return Err(format!("C04/C10 close: tag {} ({:?},{:?}) resubmit membership {} expected {}", tag, kind, pos, n_res, should_resubmit)); }
                if should_resubmit {
                    let op = &r.h.ps.operations[&id];
                    if !matches!(&*op.packet, MqttPacket::Publish(p) if p.duplicate) { return Err(format!("C04 close: in-flight publish tag {} not marked DUP", tag)); }
                    if op_packet_id(op) != bound_before[tag] || op_packet_id(op).is_none() { return Err(format!("C04/C06 close: in-flight publish tag {} lost its packet id", tag)); }
                }
            }
            (Some(e), Some(Outcome::Err(got))) if got == e => {}
            (exp, got) => return Err(format!("C15/C18 close: tag {} ({:?},{:?},policy {:?},retries {:?}) expected {:?} got {:?}", tag, kind, pos, cfg.policy, cfg.retries, exp, got)),
        }
    }

    Ok(())
}

pub(crate) fn run_scenario(cfg: &Cfg, ops: &[Kind], script: &[Act], session_present: bool, rm: Option<u16>, script2: &[Act]) -> Result<(), String> {
    let mut r = Runner { h: H::new(cfg.clone()), acked_upto: 0, what: String::new() };
    let x = r.h.open(); r.step(x, "open")?;
    let x = r.h.service(4096); r.step(x, "service CONNECT")?;
    let x = r.h.write_completion(); r.step(x, "wc CONNECT")?;
    let x = r.h.connack(false, rm); r.step(x, "connack")?;
    r.acked_upto = r.h.sent_this_connection.len();
    if !matches!(r.h.sent_this_connection.first().map(|p| &**p), Some(MqttPacket::Connect(_))) || r.h.sent_this_connection.len() != 1 {
        return Err("C07 first connection: the bytes before CONNACK are not exactly one CONNECT".into());
    }
    let mut tags = Vec::new();
    for k in ops { tags.push((r.h.submit(*k), *k)); let ok = r.h.check_wf(); ok.map_err(|e| format!("wf broken after submit: {}", e))?; }
    for a in script { r.act(*a)?; }

    check_close(&mut r, &tags, cfg, true)?;

    // ---------------------------------------------------------------- contract of apply_session_present_to_connection (via CONNACK)
    let resubmit_before: Vec<u64> = r.h.ps.resubmit_operation_queue.iter().copied().collect();
    let x = r.h.open(); r.step(x, "reopen")?;
    let x = r.h.service(4096); r.step(x, "service CONNECT 2")?;
    let x = r.h.write_completion(); r.step(x, "wc CONNECT 2")?;
    if !matches!(r.h.sent_this_connection.first().map(|p| &**p), Some(MqttPacket::Connect(_))) || r.h.sent_this_connection.len() != 1 {
        return Err(format!("C07 second connection: {} packets before CONNACK, first is not the only CONNECT", r.h.sent_this_connection.len()));
    }
    let x = r.h.connack(session_present, rm); r.step(x, "connack 2")?;
    r.acked_upto = r.h.sent_this_connection.len();
    {
        let s = &r.h.ps;
        let asc = |q: &VecDeque<u64>| q.iter().zip(q.iter().skip(1)).all(|(a, b)| a < b);
        if !asc(&s.user_operation_queue) || !asc(&s.resubmit_operation_queue) { return Err("C10 connack: queues not in submission order".into()); }
        if !session_present {
            if !s.resubmit_operation_queue.is_empty() { return Err("C04 connack(no session): resubmit queue not emptied".into()); }
            if !s.allocated_packet_ids.is_empty() { return Err("C06 connack(no session): packet ids still reserved".into()); }
            if !s.qos2_incomplete_incoming_publishes.is_empty() { return Err("C05 connack(no session): inbound QoS2 set not cleared".into()); }
        } else {
            let now: HashSet<u64> = s.resubmit_operation_queue.iter().copied().collect();
            let was: HashSet<u64> = resubmit_before.iter().copied().filter(|i| s.operations.contains_key(i)).collect();
            if now != was { return Err("C04 connack(session): resubmit queue changed as a set".into()); }
        }
        for id in s.user_operation_queue.iter() {
            if let Some(op) = s.operations.get(id) {
                let fresh = op_packet_id(op).is_none() && op.qos2_pubrel.is_none() && !matches!(&*op.packet, MqttPacket::Publish(p) if p.duplicate && !session_present);
                if !fresh { return Err(format!("C04/C06 connack: op {} in the user queue is not restarted fresh", id)); }
            }
        }
        for id in s.resubmit_operation_queue.iter() {
            let op = s.operations.get(id).ok_or("resubmit queue holds an untracked id")?;
            if op_packet_id(op).is_none() || !matches!(&*op.packet, MqttPacket::Publish(p) if p.duplicate) { return Err(format!("C04 connack(session): retransmission {} lost id or DUP", id)); }
        }
    }

    // ---------------------------------------------------------------- optional second interruption (retransmissions, re-sent PUBRELs)
    if !script2.is_empty() {
        for a in script2 { r.act(*a)?; }
        check_close(&mut r, &tags, cfg, false)?;
        let x = r.h.open(); r.step(x, "reopen 3")?;
        let x = r.h.service(4096); r.step(x, "service CONNECT 3")?;
        let x = r.h.write_completion(); r.step(x, "wc CONNECT 3")?;
        let x = r.h.connack(session_present, rm); r.step(x, "connack 3")?;
        r.acked_upto = r.h.sent_this_connection.len();
        {
            let s = &r.h.ps;
            let asc = |q: &VecDeque<u64>| q.iter().zip(q.iter().skip(1)).all(|(a, b)| a < b);
            if !asc(&s.user_operation_queue) || !asc(&s.resubmit_operation_queue) { return Err(format!("C10 third connection: queues not in submission order (resubmit {:?}, user {:?})", s.resubmit_operation_queue, s.user_operation_queue)); }
        }
        for q in [&r.h.ps.user_operation_queue, &r.h.ps.resubmit_operation_queue] {
            let mut seen = HashSet::new();
            for id in q.iter() { if !seen.insert(*id) { return Err(format!("C04/C01 operation {} queued twice after the second reconnect", id)); } }
        }
    }

    // ---------------------------------------------------------------- drive to completion against a responsive broker (bounded liveness, C08)
    for _ in 0..40 {
        if tags.iter().all(|(t, _)| r.h.result_count(*t) > 0) { break; }
        r.act(Act::SvcBig)?; r.act(Act::Wc)?; r.act(Act::AckAll)?;
    }
    for (t, k) in &tags {
        let n = r.h.result_count(*t);
        if n != 1 { return Err(format!("C01/C08 tag {} ({:?}) resolved {} times against a responsive broker", t, k, n)); }
    }
    check_wire(&r.h, &tags, session_present)?;

    // ---------------------------------------------------------------- contract of reset()
    let extra = r.h.submit(Kind::Pub1);
    let now = r.h.now;
    r.h.ps.reset(&now);
    if r.h.result_of(extra) != Some(Outcome::Err("ClientClosed".into())) || r.h.result_count(extra) != 1 { return Err("C01 reset: unresolved operation not failed once with ClientClosed".into()); }
    let s = &r.h.ps;
    if !(s.operations.is_empty() && s.user_operation_queue.is_empty() && s.resubmit_operation_queue.is_empty() && s.high_priority_operation_queue.is_empty()
        && s.allocated_packet_ids.is_empty() && s.pending_publish_operations.is_empty() && s.pending_non_publish_operations.is_empty()
        && s.pending_write_completion_operations.is_empty() && s.operation_ack_timeouts.is_empty() && s.qos2_incomplete_incoming_publishes.is_empty() && s.current_operation.is_none()) {
        return Err("C01 reset: something stays tracked".into());
    }
    for (t, _) in &tags { if r.h.result_count(*t) != 1 { return Err(format!("C01 tag {} resolved {} times in total", t, r.h.result_count(*t))); } }
    Ok(())
}

/// what went on the wire (decoded again by the crate's decoder): C04 / C06 / C01 ownership of acks
fn check_wire(h: &H, tags: &[(u64, Kind)], session_present: bool) -> Result<(), String> {
    for (t, k) in tags {
        let topic = format!("t/{}", t);
        let mine: Vec<&MqttPacket> = h.sent.iter().map(|p| &**p).filter(|p| topic_of(p).as_deref() == Some(topic.as_str())).collect();
        let mut first_pid: Option<u16> = None;
        for (i, p) in mine.iter().enumerate() {
            match p {
                MqttPacket::Publish(x) => {
                    if x.qos != QualityOfService::AtMostOnce && x.packet_id == 0 { return Err(format!("C06 tag {} sent with packet id 0", t)); }
                    if i == 0 && x.duplicate { return Err(format!("C04 tag {} first transmission has DUP=1", t)); }
                    if i > 0 && x.qos != QualityOfService::AtMostOnce {
                        if x.duplicate && first_pid != Some(x.packet_id) { return Err(format!("C04/C06 tag {} retransmitted with another packet id", t)); }
                    }
                    if i == 0 { first_pid = Some(x.packet_id); }
                }
                MqttPacket::Subscribe(x) => { if x.packet_id == 0 { return Err(format!("C06 tag {} SUBSCRIBE with packet id 0", t)); } }
                MqttPacket::Unsubscribe(x) => { if x.packet_id == 0 { return Err(format!("C06 tag {} UNSUBSCRIBE with packet id 0", t)); } }
                _ => {}
            }
        }
        // the success it got carries the ack for the id it was (last) sent with
        if let Some(Outcome::Ok(s)) = h.result_of(*t) {
            let last_pid = mine.iter().rev().find_map(|p| match p { MqttPacket::Publish(x) => Some(x.packet_id), MqttPacket::Subscribe(x) => Some(x.packet_id), MqttPacket::Unsubscribe(x) => Some(x.packet_id), _ => None });
            let ok = match k {
                Kind::Pub0 => s == "Qos0",
                Kind::Pub1 => Some(s.as_str()) == last_pid.map(|p| format!("Puback:{}", p)).as_deref(),
                Kind::Pub2 => Some(s.as_str()) == last_pid.map(|p| format!("Pubcomp:{}", p)).as_deref(),
                Kind::Sub => Some(s.as_str()) == last_pid.map(|p| format!("Suback:{}:1", p)).as_deref(),
                Kind::Unsub => Some(s.as_str()) == last_pid.map(|p| format!("Unsuback:{}:1", p)).as_deref(),
            };
            if !ok { return Err(format!("C01 tag {} ({:?}) completed with {:?}, last sent with id {:?}", t, k, s, last_pid)); }
        }
    }
    Ok(())
}

fn sequences<T: Copy>(alphabet: &[T], max_len: usize, min_len: usize) -> Vec<Vec<T>> {
    let mut out: Vec<Vec<T>> = vec![vec![]];
    let mut frontier: Vec<Vec<T>> = vec![vec![]];
    for _ in 0..max_len {
        let mut next = Vec::new();
        for s in &frontier { for a in alphabet { let mut t = s.clone(); t.push(*a); next.push(t); } }
        out.extend(next.iter().cloned());
        frontier = next;
    }
    out.into_iter().filter(|s| s.len() >= min_len).collect()
}

#[test]
fn engine_closed_connack_reset_contracts() {
    let thorough = super::tier_thorough();
    let (n_ops, n_script) = if thorough { (3, 4) } else { (2, 3) };
    let op_seqs = sequences(&KINDS, n_ops, 1);
    let scripts = sequences(&ACTS, n_script, 0);
    let policies = [OfflineQueuePolicy::PreserveAll, OfflineQueuePolicy::PreserveAcknowledged, OfflineQueuePolicy::PreserveQos1PlusPublishes, OfflineQueuePolicy::PreserveNothing];
    let drains = [PostReconnectQueueDrainPolicy::None, PostReconnectQueueDrainPolicy::OneAtATime];
    let modes = [ProtocolMode::Mqtt5, ProtocolMode::Mqtt311];
    let retries: &[Option<u32>] = if thorough { &[None, Some(0), Some(1)] } else { &[None, Some(0)] };
    let mut cases = 0u64;
    let mut failures: Vec<String> = Vec::new();
    for policy in policies { for drain in drains { for mode in modes { for retry in retries { for session in [false, true] {
        let rm = if matches!(drain, PostReconnectQueueDrainPolicy::OneAtATime) { Some(1u16) } else { None };
        let cfg = Cfg { policy, drain, mode, retries: *retry, keep_alive: None, ack_timeout: None };
        for ops in &op_seqs { for script in &scripts {
            cases += 1;
            if let Err(e) = run_scenario(&cfg, ops, script, session, rm, &[]) {
                if failures.len() < 40 {
                    failures.push(format!("policy={:?} drain={:?} mode={:?} retries={:?} session_present={} ops={:?} script={:?} :: {}", policy, drain, mode, retry, session, ops, script, e));
                }
            }
        } }
    } } } } }
    // second interruption cycle: one operation, first script <= 2, second script <= 3 (thorough: 2 operations, scripts <= 3)
    let ops2 = sequences(&KINDS, if thorough { 2 } else { 1 }, 1);
    let s1 = sequences(&ACTS, if thorough { 3 } else { 2 }, 0);
    let s2 = sequences(&[Act::Flush, Act::SvcTiny, Act::AckAll, Act::AckOne, Act::Wc], 3, 1);
    for policy in [OfflineQueuePolicy::PreserveAll, OfflineQueuePolicy::PreserveNothing] { for session in [false, true] { for retry in [None, Some(1u32)] {
        let cfg = Cfg { policy, drain: PostReconnectQueueDrainPolicy::None, mode: ProtocolMode::Mqtt5, retries: retry, keep_alive: None, ack_timeout: None };
        for ops in &ops2 { for a in &s1 { for b in &s2 {
            cases += 1;
            if let Err(e) = run_scenario(&cfg, ops, a, session, None, b) {
                if failures.len() < 40 { failures.push(format!("policy={:?} retries={:?} session_present={} ops={:?} script={:?} second_script={:?} :: {}", policy, retry, session, ops, a, b, e)); }
            }
        } } }
    } } }
    // two in-flight publishes across two interruptions (C10: retransmission order after an interrupted retransmission)
    let pubs = [Kind::Pub1, Kind::Pub2];
    let s1b = sequences(&ACTS, 2, 0);
    for a0 in pubs { for b0 in pubs { for session in [true, false] {
        let cfg = Cfg { policy: OfflineQueuePolicy::PreserveAll, drain: PostReconnectQueueDrainPolicy::None, mode: ProtocolMode::Mqtt5, retries: None, keep_alive: None, ack_timeout: None };
        for a in &s1b { for b in &s2 {
            cases += 1;
            if let Err(e) = run_scenario(&cfg, &[a0, b0], a, session, Some(1), b) {
                if failures.len() < 40 { failures.push(format!("two-publish second cycle: session_present={} ops={:?} script={:?} second_script={:?} :: {}", session, [a0, b0], a, b, e)); }
            }
            cases += 1;
            if let Err(e) = run_scenario(&cfg, &[a0, b0], a, session, None, b) {
                if failures.len() < 40 { failures.push(format!("two-publish second cycle: session_present={} ops={:?} script={:?} second_script={:?} rm=None :: {}", session, [a0, b0], a, b, e)); }
            }
        } }
    } } }
    println!("BOUNDED engine_closed_connack_reset_contracts cases={} bound=ops<={} script<={} x4 policies x2 drain x2 versions x{} retry limits x2 session", cases, n_ops, n_script, retries.len());
    for f in &failures { println!("BOUNDED-FAIL engine_closed_connack_reset_contracts {}", f); }
    assert!(failures.is_empty(), "{} failing scenarios", failures.len());
}

/// C18 (bounded stand-in for start_operation_ack_timeout / process_ack_timeouts): every operation written at t0 with ack timeout T
/// fails with AckTimeout at the first service at or after t0+T and not before; an operation acked before its deadline, or without
/// a timeout, never does; the engine's reported service time never sleeps through a pending deadline (C08).
#[test]
fn ack_timeouts_fire_exactly_at_deadline() {
    use std::time::Duration;
    let thorough = super::tier_thorough();
    let touts: [Option<u64>; 4] = [None, Some(10), Some(30), Some(50)];
    let kinds = [Kind::Pub1, Kind::Pub2, Kind::Sub, Kind::Unsub];
    let n = if thorough { 3 } else { 2 };
    let mut all: Vec<(Kind, Option<u64>)> = Vec::new();
    for k in kinds { for t in touts { all.push((k, t)); } }
    let combos = sequences(&all, n, 1);
    let mut cases = 0u64;
    let mut fails: Vec<String> = Vec::new();
    for combo in &combos { for step in [5u64, 7, 20] { for ack_first_at in [None, Some(8u64), Some(25)] {
        cases += 1;
        let cfg = Cfg { policy: OfflineQueuePolicy::PreserveAll, drain: PostReconnectQueueDrainPolicy::None, mode: ProtocolMode::Mqtt5, retries: None, keep_alive: None, ack_timeout: None };
        let mut h = H::new(cfg);
        let fs = |d: u64| ((d + step - 1) / step) * step;          // first service at or after d
        let r: Result<(), String> = (|| {
            h.connect(false, None).map_err(|e| err_name(&e))?;
            let tags: Vec<(u64, Option<u64>)> = combo.iter().map(|(k, t)| (h.submit_with_timeout(*k, t.map(Duration::from_millis)), *t)).collect();
            h.service(4096).map_err(|e| err_name(&e))?;
            h.write_completion().map_err(|e| err_name(&e))?;
            let first_reply = h.sent_this_connection.iter().skip(1).next().and_then(|p| h.broker_reply(p));
            let mut ack_t: Option<u64> = None;
            let mut fired: HashMap<u64, u64> = HashMap::new();
            let mut t = 0u64;
            while t <= 80 {
                if let (Some(at), None) = (ack_first_at, ack_t) { if t >= at {
                    ack_t = Some(t);
                    if h.result_count(tags[0].0) == 0 { if let Some(reply) = first_reply.clone() { h.deliver(reply, 64).map_err(|e| format!("deliver: {}", err_name(&e)))?; } }
                } }
                let now = h.now;
                let next = h.ps.get_next_service_timepoint(&now);
                for (tag, to) in &tags { if let Some(to) = to { if h.result_count(*tag) == 0 && h.ps.operations.values().any(|op| topic_of(&op.packet) == Some(format!("t/{}", tag))) {
                    let deadline = h.cfg_base() + Duration::from_millis(*to);
                    if next.map(|x| x > deadline && x > now).unwrap_or(true) { return Err(format!("C08 reported service time sleeps through the ack deadline of tag {} (+{} ms) at t={}", tag, to, t)); }
                } } }
                h.service(4096).map_err(|e| format!("service: {}", err_name(&e)))?;
                if h.ps.pending_write_completion { h.write_completion().map_err(|e| err_name(&e))?; }
                h.check_wf()?;
                for (tag, _) in &tags { if let Some(Outcome::Err(e)) = h.result_of(*tag) { if e == "AckTimeout" { fired.entry(*tag).or_insert(t); } else { return Err(format!("tag {} failed with {}", tag, e)); } } }
                t += step; h.advance(step);
            }
            for (i, (tag, to)) in tags.iter().enumerate() {
                match to {
                    None => { if fired.contains_key(tag) { return Err(format!("tag {} has no ack timeout but failed with AckTimeout", tag)); } }
                    Some(to) => {
                        if i == 0 && ack_first_at.is_some() {
                            if combo[0].0 == Kind::Pub2 { continue; }                      // a PUBREC does not complete the operation; not asserted here
                            let a = fs(ack_first_at.unwrap());
                            if a <= fs(*to) { if fired.contains_key(tag) { return Err(format!("tag {} acked at {} ms, deadline {} ms, still timed out", tag, a, to)); } continue; }
                        }
                        match fired.get(tag) {
                            Some(at) => { if *at != fs(*to) { return Err(format!("tag {} with ack timeout {} ms failed at {} ms (service every {} ms), expected {}", tag, to, at, step, fs(*to))); } }
                            None => return Err(format!("tag {} with ack timeout {} ms never timed out (service every {} ms up to 80 ms)", tag, to, step)),
                        }
                    }
                }
            }
            Ok(())
        })();
        if let Err(e) = r { if fails.len() < 30 { fails.push(format!("ops={:?} step={} ack_first_at={:?} :: {}", combo, step, ack_first_at, e)); } }
    } } }
    println!("BOUNDED ack_timeouts_fire_exactly_at_deadline cases={} bound=<={} acked operations x timeouts {{none,10,30,50 ms}} x service period {{5,7,20 ms}} x first ack at {{never,8,25 ms}}", cases, n);
    for f in &fails { println!("BOUNDED-FAIL ack_timeouts_fire_exactly_at_deadline {}", f); }
    assert!(fails.is_empty());
}

/// C08 as worded: "a driver that services it only at reported times and after each event it delivers always makes progress:
/// against a responsive broker every submitted operation completes successfully within a bounded number of steps".
/// The driver below never calls service() unless get_next_service_timepoint() says so (the two real event loops behave
/// like this), offers `capacity` bytes of output per call, reports write completion, and lets the broker answer.
fn drive_by_reported_times(kinds: &[Kind], capacity: usize, rm: Option<u16>, drain: PostReconnectQueueDrainPolicy, mode: ProtocolMode, keep_alive: Option<u16>, payload: usize) -> Result<(), String> {
    let cfg = Cfg { policy: OfflineQueuePolicy::PreserveAll, drain, mode, retries: None, keep_alive, ack_timeout: None };
    let mut r = Runner { h: H::new(cfg), acked_upto: 0, what: String::new() };
    let x = r.h.open(); r.step(x, "open")?;
    let mut tags: Vec<u64> = Vec::new();
    let mut submitted = false;
    let mut spins = 0u32;
    let mut steps = 0u32;
    let budget = 400 + 40 * (kinds.len() as u32) * ((payload / capacity.max(1)) as u32 + 4);
    loop {
        steps += 1;
        if steps > budget { let now = r.h.now; let nst = r.h.ps.get_next_service_timepoint(&now).map(|t| t - now);
            return Err(format!("no completion within {} driver steps: results {:?}, state {:?}, current_operation {:?}, pending_write_completion {}, next service time {:?}",
            budget, r.h.results.lock().unwrap().clone(), r.h.ps.state, r.h.ps.current_operation, r.h.ps.pending_write_completion, nst)); }
        if submitted && tags.iter().all(|t| r.h.result_count(*t) > 0) { break; }
        // events first: a pending write completes, the broker answers whatever it has received completely
        if r.h.ps.pending_write_completion { let x = r.h.write_completion(); r.step(x, "write completion")?; continue; }
        if r.h.ps.state == ProtocolStateType::PendingConnack && r.h.sent_this_connection.iter().any(|p| matches!(&**p, MqttPacket::Connect(_))) && r.h.ps.current_settings.is_none() {
            let x = r.h.connack(false, rm); r.step(x, "connack")?; continue;
        }
        if r.h.ps.state == ProtocolStateType::Connected && !submitted {
            for k in kinds { let t = r.h.submit_sized(*k, payload); tags.push(t); }
            submitted = true; continue;
        }
        if r.acked_upto < r.h.sent_this_connection.len() { r.ack(false)?; continue; }
        // no event left: the driver sleeps until the reported service time
        let now = r.h.now;
        match r.h.ps.get_next_service_timepoint(&now) {
            None => return Err(format!("lost wake-up: next service time is NEVER although operations are unresolved (state {:?}, current_operation {:?}, queues hp={} resubmit={} user={}, in flight {})",
                r.h.ps.state, r.h.ps.current_operation, r.h.ps.high_priority_operation_queue.len(), r.h.ps.resubmit_operation_queue.len(), r.h.ps.user_operation_queue.len(),
                r.h.ps.pending_publish_operations.len() + r.h.ps.pending_non_publish_operations.len())),
            Some(t) => {
                if t > now { r.h.now = t; }
                let sent_before = r.h.sent.len();
                let results_before = r.h.results.lock().unwrap().len();
                let state_before = r.h.ps.state;
                let x = r.h.service(capacity);
                let produced = match &x { Ok(n) => *n, Err(_) => 0 };
                r.step(x, "service at reported time")?;
                // "never keeps answering 'service me now' without producing output, completing something or changing state"
                if produced == 0 && r.h.sent.len() == sent_before && r.h.results.lock().unwrap().len() == results_before && r.h.ps.state == state_before && t <= now {
                    spins += 1;
                    if spins > 3 { return Err("idle spinning: service demanded now, but four consecutive calls produced nothing".into()); }
                } else { spins = 0; }
            }
        }
    }
    for t in &tags { match r.h.result_of(*t) { Some(Outcome::Ok(_)) => {}, other => return Err(format!("operation #{} did not complete successfully: {:?}", t, other)) } }
    Ok(())
}

#[test]
fn service_time_contract_never_strands_work() {
    let thorough = super::tier_thorough();
    let mut cases = 0u64;
    let mut fails: Vec<String> = Vec::new();
    let kind_sets: Vec<Vec<Kind>> = { let mut v: Vec<Vec<Kind>> = KINDS.iter().map(|k| vec![*k]).collect();
        for a in KINDS { for b in KINDS { v.push(vec![a, b]); } }
        if thorough { for a in KINDS { for b in KINDS { for c in KINDS { v.push(vec![a, b, c]); } } } }
        v };
    for kinds in &kind_sets { for capacity in [4usize, 5, 16, 64, 4096] { for rm in [None, Some(1u16)] { for drain in [PostReconnectQueueDrainPolicy::None, PostReconnectQueueDrainPolicy::OneAtATime] {
        for mode in [ProtocolMode::Mqtt5, ProtocolMode::Mqtt311] { for payload in [3usize, 300] {
            if payload == 300 && capacity < 16 && !thorough { continue; }
            cases += 1;
            if let Err(e) = drive_by_reported_times(kinds, capacity, rm, drain, mode, Some(30), payload) {
                if fails.len() < 25 { fails.push(format!("kinds={:?} capacity={} rm={:?} drain={:?} mode={:?} payload={} :: {}", kinds, capacity, rm, drain, mode, payload, e)); }
            }
        } }
    } } } }
    println!("BOUNDED service_time_contract_never_strands_work cases={} bound=<={} operations x output capacity {{4,5,16,64,4096}} x receive maximum {{none,1}} x 2 drain policies x 2 versions x payload {{3,300}} bytes; driver services only at reported times against a responsive broker", cases, if thorough { 3 } else { 2 });
    for f in &fails { println!("BOUNDED-FAIL service_time_contract_never_strands_work {}", f); }
    assert!(fails.is_empty());
}

/// C08 "an expired timeout ... the next-service time it reports is no later than the moment that work is due": acknowledged
/// operations with different ack timeouts, a broker that never acknowledges them, a driver that services only at reported times.
/// Every operation must fail with the ack-timeout error exactly at written-time + T, whatever the order of the deadlines.
fn drive_silent_broker(kinds: &[Kind], timeouts_ms: &[u64], mode: ProtocolMode) -> Result<(), String> {
    let cfg = Cfg { policy: OfflineQueuePolicy::PreserveAll, drain: PostReconnectQueueDrainPolicy::None, mode, retries: None, keep_alive: None, ack_timeout: None };
    let mut r = Runner { h: H::new(cfg), acked_upto: 0, what: String::new() };
    let x = r.h.connect(false, None); r.step(x, "connect")?;
    let t_submit = r.h.now;
    let mut tags = Vec::new();
    for (k, t) in kinds.iter().zip(timeouts_ms.iter()) { tags.push((r.h.submit_with_timeout(*k, Some(std::time::Duration::from_millis(*t))), *t)); }
    let results = r.h.results.clone();
    let mut done_at: HashMap<u64, u64> = HashMap::new();
    for _ in 0..200 {
        if r.h.ps.pending_write_completion { let x = r.h.write_completion(); r.step(x, "write completion")?; continue; }
        for (tag, _) in &tags { if r.h.result_count(*tag) > 0 && !done_at.contains_key(tag) { done_at.insert(*tag, (r.h.now - t_submit).as_millis() as u64); } }
        if done_at.len() == tags.len() { break; }
        let now = r.h.now;
        match r.h.ps.get_next_service_timepoint(&now) {
            None => return Err(format!("lost wake-up: next service time is NEVER with {} ack timeouts still armed", tags.len() - done_at.len())),
            Some(t) => { if t > now { r.h.now = t; } let x = r.h.service(4096); r.step(x, "service at reported time")?; }
        }
    }
    for (tag, t) in &tags {
        match (r.h.result_of(*tag), done_at.get(tag)) {
            (Some(Outcome::Err(e)), Some(at)) if e == "AckTimeout" && *at == *t => {}
            other => return Err(format!("operation #{} (ack timeout {} ms, written at 0 ms) ended as {:?}", tag, t, other)),
        }
    }
    let _ = results;
    Ok(())
}

#[test]
fn service_time_covers_every_armed_deadline() {
    let acked = [Kind::Pub1, Kind::Pub2, Kind::Sub, Kind::Unsub];
    let ts = [10u64, 30, 50];
    let n = if super::tier_thorough() { 3 } else { 2 };
    let mut cases = 0u64;
    let mut fails: Vec<String> = Vec::new();
    let mut combos: Vec<(Vec<Kind>, Vec<u64>)> = vec![(vec![], vec![])];
    for _ in 0..n { let mut next = Vec::new(); for (ks, tv) in &combos { for k in acked { for t in ts { let mut a = ks.clone(); a.push(k); let mut b = tv.clone(); b.push(t); next.push((a, b)); } } } combos = next; }
    for (ks, tv) in &combos { for mode in [ProtocolMode::Mqtt5, ProtocolMode::Mqtt311] {
        cases += 1;
        if let Err(e) = drive_silent_broker(ks, tv, mode) { if fails.len() < 20 { fails.push(format!("kinds={:?} timeouts={:?} mode={:?} :: {}", ks, tv, mode, e)); } }
    } }
    println!("BOUNDED service_time_covers_every_armed_deadline cases={} bound={} acknowledged operations x ack timeouts {{10,30,50 ms}} in every order x 2 versions, silent broker, driver services only at reported times", cases, n);
    for f in &fails { println!("BOUNDED-FAIL service_time_covers_every_armed_deadline {}", f); }
    assert!(fails.is_empty());
}

/// C15 / C07 / C01: the offline-queue policy decides which USER operations survive a disconnection; the client's own packets
/// (CONNECT, acknowledgements of inbound publishes, a written DISCONNECT) never do - whatever the policy, wherever they were when
/// the connection ended (queued, half written, written but not flushed). Checked at the disconnection (only publish / subscribe /
/// unsubscribe operations stay tracked) and on the wire of the next connection (exactly one CONNECT, first; none of the stale packets).
#[test]
fn internal_operations_never_survive_a_disconnection() {
    let mut cases = 0u64; let mut fails: Vec<String> = Vec::new();
    #[derive(Copy, Clone, Debug)] enum Where { Queued, HalfWritten, Unflushed }
    #[derive(Copy, Clone, Debug)] enum What { Connect, Puback, Pubrec, UserDisconnect }
    for policy in [OfflineQueuePolicy::PreserveAll, OfflineQueuePolicy::PreserveAcknowledged, OfflineQueuePolicy::PreserveQos1PlusPublishes, OfflineQueuePolicy::PreserveNothing] {
    for mode in [ProtocolMode::Mqtt5, ProtocolMode::Mqtt311] { for what in [What::Connect, What::Puback, What::Pubrec, What::UserDisconnect] { for place in [Where::Queued, Where::HalfWritten, Where::Unflushed] { for with_user_op in [false, true] {
        cases += 1;
        let r = std::panic::catch_unwind(|| -> Result<(), String> {
            let cfg = Cfg { policy, drain: PostReconnectQueueDrainPolicy::None, mode, retries: None, keep_alive: None, ack_timeout: None };
            let mut h = H::new(cfg);
            match what {
                What::Connect => { h.open().map_err(|e| format!("open {:?}", e))?; }
                _ => { h.connect(false, None).map_err(|e| format!("connect {:?}", e))?; }
            }
            if with_user_op { h.submit(Kind::Pub1); }
            match what {
                What::Connect => {}
                What::Puback => { h.deliver(MqttPacket::Publish(PublishPacket { packet_id: 9, topic: "in/1".to_string(), qos: QualityOfService::AtLeastOnce, payload: Some(vec![1]), ..Default::default() }), 64).map_err(|e| format!("deliver {:?}", e))?; }
                What::Pubrec => { h.deliver(MqttPacket::Publish(PublishPacket { packet_id: 9, topic: "in/2".to_string(), qos: QualityOfService::ExactlyOnce, payload: Some(vec![2]), ..Default::default() }), 64).map_err(|e| format!("deliver {:?}", e))?; }
                What::UserDisconnect => { h.ps.handle_user_event(UserEventContext { event: UserEvent::Disconnect(Box::new(MqttPacket::Disconnect(DisconnectPacket::default()))), current_time: h.now }); }
            }
            match place {
                Where::Queued => {}
                Where::HalfWritten => { let _ = h.service(if matches!(what, What::Connect) { 5 } else { 4 }); }
                Where::Unflushed => { let _ = h.service(4096); }
            }
            let _ = h.close();
            h.check_wf()?;
            for (k, op) in h.ps.operations.iter() {
                if !matches!(&*op.packet, MqttPacket::Publish(_) | MqttPacket::Subscribe(_) | MqttPacket::Unsubscribe(_)) {
                    return Err(format!("after the disconnection operation {} ({}) is still tracked", k, crate::mqtt::utils::mqtt_packet_to_str(&op.packet)));
                }
            }
            // next connection: one CONNECT first, and nothing of the old connection's own packets
            h.connect(true, None).map_err(|e| format!("reconnect {:?}", e))?;
            for _ in 0..4 { let _ = h.service(4096); if h.ps.pending_write_completion { let _ = h.write_completion(); } }
            let kinds: Vec<&'static str> = h.sent_this_connection.iter().map(|p| crate::mqtt::utils::mqtt_packet_to_str(p)).collect();
            let n_connect = h.sent_this_connection.iter().filter(|p| matches!(&***p, MqttPacket::Connect(_))).count();
            if !matches!(h.sent_this_connection.first().map(|p| &**p), Some(MqttPacket::Connect(_))) || n_connect != 1 { return Err(format!("second connection does not start with exactly one CONNECT: {:?}", kinds)); }
            if h.sent_this_connection.iter().any(|p| matches!(&**p, MqttPacket::Disconnect(_) | MqttPacket::Puback(_) | MqttPacket::Pubrec(_) | MqttPacket::Pubcomp(_) | MqttPacket::Pingreq(_))) {
                return Err(format!("a packet of the previous connection was sent on the next one: {:?}", kinds)); }
            Ok(())
        });
        match r { Ok(Ok(())) => {}, Ok(Err(e)) => if fails.len() < 30 { fails.push(format!("{:?} {:?} {:?} {:?} user_op={}: {}", policy, mode, what, place, with_user_op, e)) }, Err(_) => fails.push(format!("{:?} {:?} {:?} {:?}: PANIC", policy, mode, what, place)) }
    } } } } }
    println!("BOUNDED internal_operations_never_survive_a_disconnection cases={} bound=4 policies x 2 versions x {{CONNECT, PUBACK, PUBREC, user DISCONNECT}} x {{queued, half written, written-not-flushed}} at the disconnection x with/without a QoS1 user publish; then one more connection", cases);
    for f in &fails { println!("BOUNDED-FAIL internal_operations_never_survive_a_disconnection {}", f); }
    assert!(fails.is_empty());
}
