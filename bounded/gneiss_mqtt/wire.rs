// E-B: byte-level bounded checks of the real Encoder (C02) and Decoder (C03): framing consistency, independence from output
// buffer fragmentation, round trip through the crate's own decoder, chunking invariance, size limit at header time, no panic.
use crate::alias::OutboundAliasResolution;
use crate::decode::*;
use crate::encode::*;
use crate::mqtt::*;
use std::collections::VecDeque;

fn s(n: usize) -> String { "a".repeat(n) }
fn ups(count: usize, len: usize) -> Option<Vec<UserProperty>> { if count == 0 { None } else { Some((0..count).map(|i| UserProperty::new(format!("k{}{}", i, s(len)), s(len))).collect()) } }

fn encode_with(packet: &MqttPacket, version: ProtocolVersion, res: OutboundAliasResolution, caps: &[usize]) -> Result<Vec<u8>, String> {
    let mut enc = Encoder::new();
    enc.reset(packet, &EncodingContext { outbound_alias_resolution: res, protocol_version: version }).map_err(|e| format!("reset: {:?}", e))?;
    let mut out = Vec::new();
    let mut i = 0;
    loop {
        let cap = caps[i % caps.len()]; i += 1;
        let mut buf: Vec<u8> = Vec::with_capacity(cap);
        let r = enc.encode(packet, &mut buf).map_err(|e| format!("encode: {:?}", e))?;
        if buf.len() > cap { return Err("encoder grew the buffer".into()); }
        out.extend_from_slice(&buf);
        if r == EncodeResult::Complete { return Ok(out); }
        if i > 1_000_000 { return Err("encoder never completes".into()); }
    }
}

fn vli_decode(b: &[u8]) -> Option<(usize, usize)> {           // OASIS 1.5.5, written independently of the crate
    let mut v = 0usize; let mut m = 1usize;
    for i in 0..4 { let x = *b.get(i)?; v += (x & 127) as usize * m; m *= 128; if x & 128 == 0 { return Some((v, i + 1)); } }
    None
}

fn decode_all(bytes: &[u8], version: ProtocolVersion, max: u32, chunks: &[usize]) -> (Result<(), String>, Vec<Box<MqttPacket>>, usize) {
    let mut d = Decoder::new();
    let mut packets = VecDeque::new();
    let mut consumed_before_error = 0usize;
    let mut i = 0; let mut c = 0;
    let mut verdict = Ok(());
    while i < bytes.len() {
        let n = chunks[c % chunks.len()].max(1); c += 1;
        let j = usize::min(bytes.len(), i + n);
        let mut ctx = DecodingContext { maximum_packet_size: max, protocol_version: version, decoded_packets: &mut packets };
        if let Err(e) = d.decode_bytes(&bytes[i..j], &mut ctx) { verdict = Err(format!("{:?}", e).split('(').next().unwrap_or("").to_string()); consumed_before_error = j; break; }
        i = j;
    }
    (verdict, packets.into_iter().collect(), consumed_before_error)
}

fn check_outbound(packet: MqttPacket, version: ProtocolVersion, res: OutboundAliasResolution, what: &str) -> Result<(), String> {
    let reference = encode_with(&packet, version, res, &[1 << 20]).map_err(|e| format!("{}: {}", what, e))?;
    for caps in [&[5usize][..], &[7, 13][..], &[4][..], &[64, 5, 9][..]] {
        let b = encode_with(&packet, version, res, caps).map_err(|e| format!("{} caps {:?}: {}", what, caps, e))?;
        if b != reference { return Err(format!("{}: bytes depend on output buffer fragmentation {:?}", what, caps)); }
    }
    // fixed header framing: remaining length == number of bytes that follow
    let (rem, n) = vli_decode(&reference[1..]).ok_or_else(|| format!("{}: malformed remaining length", what))?;
    if 1 + n + rem != reference.len() { return Err(format!("{}: remaining length {} but {} bytes follow the fixed header", what, rem, reference.len() - 1 - n)); }
    // the crate's own decoder accepts it and (MQTT5, no alias rewriting) recovers the same logical packet
    let (v, packets, _) = decode_all(&reference, version, 0, &[1 << 20]);
    if v.is_err() || packets.len() != 1 { return Err(format!("{}: own decoder verdict {:?}, {} packets", what, v, packets.len())); }
    if version == ProtocolVersion::Mqtt5 && res.alias.is_none() && !res.skip_topic {
        let norm = |p: &MqttPacket| { let mut q = p.clone(); if let MqttPacket::Publish(x) = &mut q { if x.payload.as_ref().map(|v| v.is_empty()).unwrap_or(false) { x.payload = None; } } q };
        if norm(&packets[0]) != norm(&packet) { return Err(format!("{}: decoded packet differs from the one encoded", what)); }
    }
    Ok(())
}

#[test]
fn outbound_encoding_framing_fragmentation_roundtrip() {
    let lens = [1usize, 127, 128, 200];
    let mut cases = 0u64; let mut fails: Vec<String> = Vec::new();
    let mut go = |p: MqttPacket, what: String, res: OutboundAliasResolution, cases: &mut u64, fails: &mut Vec<String>| {
        for version in [ProtocolVersion::Mqtt5, ProtocolVersion::Mqtt311] {
            *cases += 1;
            if let Err(e) = check_outbound(p.clone(), version, res, &format!("{} {:?}", what, version)) { if fails.len() < 30 { fails.push(e); } }
        }
    };
    let none = OutboundAliasResolution::default();
    // PUBLISH
    for qos in [QualityOfService::AtMostOnce, QualityOfService::AtLeastOnce, QualityOfService::ExactlyOnce] { for tl in lens { for pl in [None, Some(0usize), Some(1), Some(127), Some(128), Some(20000)] {
        for opt in 0..16u32 { for (uc, ul) in [(0usize, 0usize), (1, 1), (1, 130), (3, 40)] {
            let p = PublishPacket { packet_id: if qos == QualityOfService::AtMostOnce { 0 } else { 7 }, topic: s(tl), qos, duplicate: opt & 8 != 0 && qos != QualityOfService::AtMostOnce, retain: opt & 4 != 0,
                payload: pl.map(|n| vec![0x5a; n]), payload_format: if opt & 1 != 0 { Some(PayloadFormatIndicator::Utf8) } else { None },
                message_expiry_interval_seconds: if opt & 2 != 0 { Some(77) } else { None }, topic_alias: None,
                response_topic: if opt & 4 != 0 { Some(s(130)) } else { None }, correlation_data: if opt & 8 != 0 { Some(vec![1; 129]) } else { None },
                subscription_identifiers: None, content_type: if opt & 1 != 0 { Some(s(2)) } else { None }, user_properties: ups(uc, ul) };
            go(MqttPacket::Publish(p), format!("PUBLISH qos={:?} topic={} payload={:?} opt={} ups={}x{}", qos, tl, pl, opt, uc, ul), none, &mut cases, &mut fails);
        } }
    } } }
    // PUBLISH with alias resolutions (MQTT5 only meaningful; 3.1.1 must ignore them consistently)
    for res in [OutboundAliasResolution { skip_topic: false, alias: Some(3) }, OutboundAliasResolution { skip_topic: true, alias: Some(3) }] {
        let p = PublishPacket { packet_id: 9, topic: s(10), qos: QualityOfService::AtLeastOnce, payload: Some(vec![1, 2, 3]), ..Default::default() };
        cases += 1;
        if let Err(e) = check_outbound(MqttPacket::Publish(p), ProtocolVersion::Mqtt5, res, &format!("PUBLISH alias {:?}", (res.skip_topic, res.alias))) { fails.push(e); }
    }
    // CONNECT: property section and will property section on either side of the 127/128 boundary
    for (cu, cl) in [(0usize, 0usize), (1, 20), (1, 130), (2, 100)] { for (wu, wl) in [(0usize, 0usize), (1, 20), (1, 130), (2, 100)] { for will in [false, true] { for creds in 0..4u32 {
        let w = PublishPacket { topic: s(5), qos: QualityOfService::AtLeastOnce, payload: Some(vec![9; 4]), content_type: Some(s(3)), user_properties: ups(wu, wl), ..Default::default() };
        let c = ConnectPacket { keep_alive_interval_seconds: 30, clean_start: creds & 1 != 0, client_id: Some(s(12)), username: if creds & 1 != 0 { Some(s(128)) } else { None }, password: if creds & 2 != 0 { Some(vec![7; 127]) } else { None },
            session_expiry_interval_seconds: Some(5), receive_maximum: Some(10), maximum_packet_size_bytes: Some(100000), will_delay_interval_seconds: if will { Some(3) } else { None },
            will: if will { Some(w) } else { None }, user_properties: ups(cu, cl), ..Default::default() };
        go(MqttPacket::Connect(c), format!("CONNECT ups={}x{} will={} willups={}x{} creds={}", cu, cl, will, wu, wl, creds), none, &mut cases, &mut fails);
    } } } }
    // SUBSCRIBE / UNSUBSCRIBE / DISCONNECT / acks / PINGREQ
    for n in 1..=3usize { for fl in lens { for (uc, ul) in [(0usize, 0usize), (1, 130)] {
        let subs: Vec<Subscription> = (0..n).map(|i| Subscription { topic_filter: s(fl), qos: QualityOfService::AtLeastOnce, no_local: i % 2 == 0, retain_as_published: i % 2 == 1, retain_handling_type: RetainHandlingType::DontSend }).collect();
        go(MqttPacket::Subscribe(SubscribePacket { packet_id: 5, subscriptions: subs, subscription_identifier: None, user_properties: ups(uc, ul) }), format!("SUBSCRIBE n={} filter={} ups={}x{}", n, fl, uc, ul), none, &mut cases, &mut fails);
        go(MqttPacket::Unsubscribe(UnsubscribePacket { packet_id: 6, topic_filters: (0..n).map(|_| s(fl)).collect(), user_properties: ups(uc, ul) }), format!("UNSUBSCRIBE n={} filter={} ups={}x{}", n, fl, uc, ul), none, &mut cases, &mut fails);
    } } }
    for (uc, ul) in [(0usize, 0usize), (1, 130)] { for rs in [None, Some(1usize), Some(130)] {
        go(MqttPacket::Disconnect(DisconnectPacket { reason_code: DisconnectReasonCode::DisconnectWithWillMessage, session_expiry_interval_seconds: Some(9), reason_string: rs.map(s), user_properties: ups(uc, ul), server_reference: None }), format!("DISCONNECT rs={:?} ups={}x{}", rs, uc, ul), none, &mut cases, &mut fails);
        go(MqttPacket::Puback(PubackPacket { packet_id: 3, reason_code: PubackReasonCode::Success, reason_string: rs.map(s), user_properties: ups(uc, ul) }), format!("PUBACK rs={:?} ups={}x{}", rs, uc, ul), none, &mut cases, &mut fails);
        go(MqttPacket::Pubrec(PubrecPacket { packet_id: 3, reason_code: PubrecReasonCode::Success, reason_string: rs.map(s), user_properties: ups(uc, ul) }), format!("PUBREC rs={:?} ups={}x{}", rs, uc, ul), none, &mut cases, &mut fails);
        go(MqttPacket::Pubrel(PubrelPacket { packet_id: 3, reason_code: PubrelReasonCode::Success, reason_string: rs.map(s), user_properties: ups(uc, ul) }), format!("PUBREL rs={:?} ups={}x{}", rs, uc, ul), none, &mut cases, &mut fails);
        go(MqttPacket::Pubcomp(PubcompPacket { packet_id: 3, reason_code: PubcompReasonCode::PacketIdentifierNotFound, reason_string: rs.map(s), user_properties: ups(uc, ul) }), format!("PUBCOMP rs={:?} ups={}x{}", rs, uc, ul), none, &mut cases, &mut fails);
    } }
    go(MqttPacket::Pingreq(PingreqPacket {}), "PINGREQ".to_string(), none, &mut cases, &mut fails);
    println!("BOUNDED outbound_encoding_framing_fragmentation_roundtrip cases={} bound=client packet types x field lengths {{1,127,128,200,20000}} x optional-field combinations x user properties {{0,1x1,1x130,3x40}} x 2 versions x 5 buffer-capacity sequences", cases);
    for f in &fails { println!("BOUNDED-FAIL outbound_encoding_framing_fragmentation_roundtrip {}", f); }
    assert!(fails.is_empty());
}

#[test]
fn inbound_decoding_chunking_size_limit_no_panic() {
    let mut cases = 0u64; let mut fails: Vec<String> = Vec::new();
    let none = OutboundAliasResolution::default();
    // server-sent packets whose total size sits on either side of the length-prefix boundaries
    let mut packets: Vec<(MqttPacket, String)> = Vec::new();
    for pl in [0usize, 100, 118, 119, 120, 121, 130, 16370, 16373, 16374, 16375, 16380, 20000] {
        packets.push((MqttPacket::Publish(PublishPacket { packet_id: 2, topic: "t/x".to_string(), qos: QualityOfService::AtLeastOnce, payload: Some(vec![3; pl]), ..Default::default() }), format!("PUBLISH payload {}", pl)));
    }
    packets.push((MqttPacket::Suback(SubackPacket { packet_id: 4, reason_codes: vec![SubackReasonCode::GrantedQos1; 130], ..Default::default() }), "SUBACK 130 codes".into()));
    packets.push((MqttPacket::Connack(ConnackPacket { session_present: true, reason_string: Some(s(200)), ..Default::default() }), "CONNACK".into()));
    packets.push((MqttPacket::Pingresp(PingrespPacket {}), "PINGRESP".into()));
    for (p, what) in &packets { for version in [ProtocolVersion::Mqtt5, ProtocolVersion::Mqtt311] {
        if version == ProtocolVersion::Mqtt311 && matches!(p, MqttPacket::Connack(_)) { continue; }
        let bytes = match encode_with(p, version, none, &[1 << 20]) { Ok(b) => b, Err(e) => { fails.push(format!("{} {:?}: reference encode failed {}", what, version, e)); continue; } };
        let total = bytes.len();
        let (_, hdr) = vli_decode(&bytes[1..]).unwrap();
        let hdr_len = 1 + hdr;
        let mut chunkings: Vec<Vec<usize>> = vec![vec![1 << 20], vec![1], vec![2], vec![3, 1 << 20]];
        for k in 1..=usize::min(6, total.saturating_sub(1)) { chunkings.push(vec![k, 1 << 20]); }
        for a in 1..=3usize { for b in 1..=3usize { chunkings.push(vec![a, b, 1 << 20]); } }
        for max in [0u32, (total as u32).saturating_sub(3), (total as u32).saturating_sub(2), (total as u32).saturating_sub(1), total as u32, total as u32 + 1] {
            let fits = max == 0 || total as u32 <= max;
            for ch in &chunkings {
                cases += 1;
                let (v, got, consumed) = decode_all(&bytes, version, max, ch);
                if fits {
                    let norm = |q: &MqttPacket| { let mut q = q.clone(); if let MqttPacket::Publish(x) = &mut q { if x.payload.as_ref().map(|v| v.is_empty()).unwrap_or(false) { x.payload = None; } } q };
                    if v.is_err() || got.len() != 1 || norm(&got[0]) != norm(p) { fails.push(format!("{} {:?} max={} chunks={:?}: well-formed packet not decoded to itself ({:?}, {} packets)", what, version, max, &ch[..usize::min(3, ch.len())], v, got.len())); }
                } else {
                    if v.is_ok() || !got.is_empty() { fails.push(format!("{} {:?} size {} max={} chunks={:?}: oversize packet accepted", what, version, total, max, &ch[..usize::min(3, ch.len())])); }
                    // rejected as soon as the fixed header is complete: with 1-byte reads the error comes on the last header byte
                    else if ch.len() == 1 && ch[0] == 1 && consumed != hdr_len { fails.push(format!("{} {:?} size {} max={}: rejected after {} bytes, header is {} bytes (body buffered before rejecting)", what, version, total, max, consumed, hdr_len)); }
                }
                if fails.len() > 30 { break; }
            }
        }
    } }
    // hostile bytes: same packets and same verdict for every chunking, and never a panic
    let mut seed = 0x9e3779b97f4a7c15u64;
    let mut rnd = move || { seed ^= seed << 13; seed ^= seed >> 7; seed ^= seed << 17; seed };
    let n_streams = if super::tier_thorough() { 20000 } else { 4000 };
    for i in 0..n_streams {
        let len = (rnd() % 24) as usize + 1;
        let mut bytes: Vec<u8> = (0..len).map(|_| (rnd() >> 11) as u8).collect();
        if i % 3 == 0 { bytes[0] = [0x20u8, 0x30, 0x32, 0x40, 0x50, 0x62, 0x70, 0x90, 0xb0, 0xd0, 0xe0][(rnd() % 11) as usize]; if len > 1 { bytes[1] = (rnd() % (len as u64 + 2)) as u8; } }
        for version in [ProtocolVersion::Mqtt5, ProtocolVersion::Mqtt311] {
            let r = std::panic::catch_unwind(|| {
                let a = decode_all(&bytes, version, 0, &[1 << 20]);
                let b = decode_all(&bytes, version, 0, &[1]);
                let c = decode_all(&bytes, version, 0, &[2, 3]);
                (a.0.is_ok(), a.1, b.0.is_ok(), b.1, c.0.is_ok(), c.1)
            });
            cases += 1;
            match r {
                Err(_) => fails.push(format!("decoder panicked on {:02x?} {:?}", bytes, version)),
                Ok((va, pa, vb, pb, vc, pc)) => { if va != vb || va != vc || pa != pb || pa != pc { fails.push(format!("chunking changes the outcome for {:02x?} {:?}: single=({}, {}) bytewise=({}, {}) 2/3=({}, {})", bytes, version, va, pa.len(), vb, pb.len(), vc, pc.len())); } }
            }
            if fails.len() > 30 { break; }
        }
    }
    println!("BOUNDED inbound_decoding_chunking_size_limit_no_panic cases={} bound={} server packets on the 127/128 and 16383/16384 size boundaries x 6 maximum sizes x ~25 chunkings x 2 versions; {} pseudo-random hostile streams <= 24 bytes x 3 chunkings", cases, packets.len(), n_streams);
    for f in fails.iter().take(30) { println!("BOUNDED-FAIL inbound_decoding_chunking_size_limit_no_panic {}", f); }
    assert!(fails.is_empty());
}

/// C03 at the engine's observation point ("packet events and errors of the engine on incoming data"): the packets surfaced and the
/// final verdict for a byte stream do not depend on how the stream is cut into reads - in particular a well-formed packet that
/// precedes a malformed one in the SAME read is surfaced exactly as when the two arrive in separate reads.
#[test]
fn engine_packet_events_and_verdict_are_chunking_invariant() {
    use super::harness::*;
    use crate::client::config::*;
    use crate::protocol::*;
    let thorough = super::tier_thorough();
    let mut cases = 0u64; let mut fails: Vec<String> = Vec::new();
    let none = OutboundAliasResolution::default();
    let publish = |n: u8, qos: QualityOfService| MqttPacket::Publish(PublishPacket { packet_id: if qos == QualityOfService::AtMostOnce { 0 } else { n as u16 }, topic: format!("t/{}", n), qos, payload: Some(vec![n; 5]), ..Default::default() });
    // tails: nothing, a second good packet, and malformed continuations
    let tails: Vec<(&str, Vec<u8>)> = vec![
        ("", vec![]),
        ("reserved packet type 0", vec![0x00, 0x00]),
        ("five-byte remaining length", vec![0x30, 0xFF, 0xFF, 0xFF, 0xFF, 0x01]),
        ("PUBACK with bad flags", vec![0x4F, 0x02, 0x00, 0x01]),
        ("truncated-looking SUBACK with reason 0xFF", vec![0x90, 0x04, 0x00, 0x09, 0x00, 0xFF]),
        ("PINGRESP with a body", vec![0xD0, 0x01, 0x00]),
    ];
    for version in [ProtocolMode::Mqtt5, ProtocolMode::Mqtt311] { for qos in [QualityOfService::AtMostOnce, QualityOfService::AtLeastOnce, QualityOfService::ExactlyOnce] { for n_good in [1usize, 2] { for (tname, tail) in &tails {
        let pv = if version == ProtocolMode::Mqtt5 { ProtocolVersion::Mqtt5 } else { ProtocolVersion::Mqtt311 };
        let mut stream: Vec<u8> = Vec::new();
        for i in 0..n_good { stream.extend(encode_with(&publish(1 + i as u8, qos), pv, none, &[1 << 20]).unwrap()); }
        let good_len = stream.len();
        stream.extend_from_slice(tail);
        // chunkings: one read; split exactly between good part and tail; every single cut (thorough) or a few; 1-byte reads
        let mut cuts: Vec<Vec<usize>> = vec![vec![], vec![good_len], (1..stream.len()).collect()];
        let step = if thorough { 1 } else { 3 };
        let mut c = 1; while c < stream.len() { cuts.push(vec![c]); c += step; }
        let mut reference: Option<(Vec<String>, bool, String)> = None;
        for cut in &cuts {
            cases += 1;
            let cfg = Cfg { policy: OfflineQueuePolicy::PreserveAll, drain: PostReconnectQueueDrainPolicy::None, mode: version, retries: None, keep_alive: None, ack_timeout: None };
            let mut h = H::new(cfg);
            if h.connect(false, None).is_err() { fails.push("setup".into()); continue; }
            h.events.clear();
            let mut bounds: Vec<usize> = cut.iter().copied().filter(|c| *c > 0 && *c < stream.len()).collect(); bounds.push(stream.len());
            let mut at = 0; let mut verdict_err = false;
            for b in bounds { if b <= at { continue; } let r = h.feed(&stream[at..b]); at = b; if r.is_err() { verdict_err = true; break; } }
            let evs: Vec<String> = h.events.iter().map(|e| match e { PacketEvent::Publish(p) => format!("PUBLISH {} {:?}", p.topic, p.payload), PacketEvent::Connack(_) => "CONNACK".to_string(), PacketEvent::Disconnect(_) => "DISCONNECT".to_string() }).collect();
            let obs = (evs, verdict_err, format!("{}", h.ps.state));
            match &reference { None => reference = Some(obs), Some(r) => if *r != obs && fails.len() < 40 {
                fails.push(format!("F-CHUNK-DISCARD {:?} qos {:?} {} good PUBLISH + tail [{}] cut at {:?}: surfaced {:?} error={} state={} - but in ONE read: surfaced {:?} error={} state={}", version, qos, n_good, tname, &cut[..cut.len().min(4)], obs.0, obs.1, obs.2, r.0, r.1, r.2)); } }
        }
    } } } }
    println!("BOUNDED engine_packet_events_and_verdict_are_chunking_invariant cases={} bound=1-2 well-formed PUBLISH (QoS 0/1/2) followed by {{nothing, 5 malformed continuations}} x 2 protocol versions x {{one read, split at the packet boundary, every cut{}, 1-byte reads}}: packet events, error verdict and final state compared with the one-read run", cases, if thorough { "" } else { " (every 3rd in the quick tier)" });
    for f in &fails { println!("BOUNDED-FAIL engine_packet_events_and_verdict_are_chunking_invariant {}", f); }
    assert!(fails.is_empty());
}
