// E-B: inbound publishes (C05) against a reference model written from the property text, across reconnects.
use super::harness::*;
use crate::client::config::*;
use crate::mqtt::*;
use crate::protocol::*;
use std::collections::HashSet;

#[derive(Copy, Clone, Debug)]
enum In { P0, P1(u16), P2(u16, bool), Rel(u16), Reconnect(bool), OutPub1 }

fn alphabet() -> Vec<In> {
    vec![In::P0, In::P1(1), In::P2(1, false), In::P2(1, true), In::P2(2, false), In::Rel(1), In::Rel(2), In::Reconnect(true), In::Reconnect(false), In::OutPub1]
}

fn run(seq: &[In], mode: ProtocolMode) -> Result<(), String> {
    let cfg = Cfg { policy: OfflineQueuePolicy::PreserveAll, drain: PostReconnectQueueDrainPolicy::None, mode, retries: None, keep_alive: None, ack_timeout: None };
    let mut h = H::new(cfg);
    h.connect(false, None).map_err(|e| err_name(&e))?;
    h.events.clear();
    let mut model_incomplete: HashSet<u16> = HashSet::new();
    let mut expect_surfaced: Vec<String> = Vec::new();
    let mut n = 0u32;
    for step in seq {
        let sent_before = h.sent_this_connection.len();
        let mut expect_ack: Option<MqttPacket> = None;
        match step {
            In::P0 | In::P1(_) | In::P2(_, _) => {
                n += 1;
                let payload = format!("m{}", n);
                let (qos, pid, dup) = match step { In::P0 => (QualityOfService::AtMostOnce, 0, false), In::P1(p) => (QualityOfService::AtLeastOnce, *p, false), In::P2(p, d) => (QualityOfService::ExactlyOnce, *p, *d), _ => unreachable!() };
                let packet = MqttPacket::Publish(PublishPacket { topic: "in/t".to_string(), qos, packet_id: pid, duplicate: dup, payload: Some(payload.clone().into_bytes()), ..Default::default() });
                match step {
                    In::P0 => expect_surfaced.push(payload),
                    In::P1(p) => { expect_surfaced.push(payload); expect_ack = Some(MqttPacket::Puback(PubackPacket { packet_id: *p, ..Default::default() })); }
                    In::P2(p, _) => { if !model_incomplete.contains(p) { expect_surfaced.push(payload); } model_incomplete.insert(*p); expect_ack = Some(MqttPacket::Pubrec(PubrecPacket { packet_id: *p, ..Default::default() })); }
                    _ => {}
                }
                h.deliver(packet, 3).map_err(|e| format!("deliver publish: {}", err_name(&e)))?;
            }
            In::Rel(p) => {
                model_incomplete.remove(p);
                expect_ack = Some(MqttPacket::Pubcomp(PubcompPacket { packet_id: *p, ..Default::default() }));
                h.deliver(MqttPacket::Pubrel(PubrelPacket { packet_id: *p, ..Default::default() }), 64).map_err(|e| format!("deliver pubrel: {}", err_name(&e)))?;
            }
            In::OutPub1 => { h.submit(Kind::Pub1); }       // outbound traffic interleaved (left unacknowledged)
            In::Reconnect(session) => {
                h.close().map_err(|e| format!("close: {}", err_name(&e)))?;
                if !*session { model_incomplete.clear(); }       // "a lost session forgets them"
                h.connect(*session, None).map_err(|e| format!("reconnect: {}", err_name(&e)))?;
                h.check_wf()?;
                continue;
            }
        }
        h.check_wf()?;
        // flush: every owed acknowledgement leaves at once, in arrival order
        h.service(4096).map_err(|e| format!("service: {}", err_name(&e)))?;
        if h.ps.pending_write_completion { h.write_completion().map_err(|e| format!("wc: {}", err_name(&e)))?; }
        let acks: Vec<&MqttPacket> = h.sent_this_connection[sent_before..].iter().map(|p| &**p).filter(|p| matches!(p, MqttPacket::Puback(_) | MqttPacket::Pubrec(_) | MqttPacket::Pubcomp(_))).collect();
        let got: Vec<String> = acks.iter().map(|p| match p { MqttPacket::Puback(x) => format!("PUBACK{}", x.packet_id), MqttPacket::Pubrec(x) => format!("PUBREC{}", x.packet_id), MqttPacket::Pubcomp(x) => format!("PUBCOMP{}", x.packet_id), _ => String::new() }).collect();
        let want: Vec<String> = expect_ack.iter().map(|p| match p { MqttPacket::Puback(x) => format!("PUBACK{}", x.packet_id), MqttPacket::Pubrec(x) => format!("PUBREC{}", x.packet_id), MqttPacket::Pubcomp(x) => format!("PUBCOMP{}", x.packet_id), _ => String::new() }).collect();
        if got != want { return Err(format!("after {:?}: acknowledgements on the wire {:?}, expected {:?}", step, got, want)); }
        if h.ps.qos2_incomplete_incoming_publishes != model_incomplete { return Err(format!("after {:?}: inbound QoS2 set {:?} model {:?}", step, h.ps.qos2_incomplete_incoming_publishes, model_incomplete)); }
    }
    let surfaced: Vec<String> = h.events.iter().filter_map(|e| match e { PacketEvent::Publish(p) => Some(String::from_utf8_lossy(p.payload.as_deref().unwrap_or(&[])).to_string()), _ => None }).collect();
    if surfaced != expect_surfaced { return Err(format!("surfaced {:?}, expected {:?} (wire order, QoS2 exactly once per identifier)", surfaced, expect_surfaced)); }
    Ok(())
}

#[test]
fn inbound_publishes_acked_and_surfaced_exactly_once() {
    let depth = if super::tier_thorough() { 5 } else { 4 };
    let alpha = alphabet();
    let mut cases = 0u64;
    let mut fails: Vec<String> = Vec::new();
    let mut stack: Vec<Vec<In>> = vec![vec![]];
    while let Some(seq) = stack.pop() {
        if !seq.is_empty() {
            for mode in [ProtocolMode::Mqtt5, ProtocolMode::Mqtt311] {
                cases += 1;
                if let Err(e) = run(&seq, mode) { if fails.len() < 30 { fails.push(format!("mode={:?} inbound={:?} :: {}", mode, seq, e)); } }
            }
        }
        if seq.len() < depth { for a in &alpha { let mut n = seq.clone(); n.push(*a); stack.push(n); } }
    }
    println!("BOUNDED inbound_publishes_acked_and_surfaced_exactly_once cases={} bound=all sequences of <= {} inbound steps over {} (QoS0/1/2 publishes, ids 1-2, DUP, PUBREL, reconnect with/without session, interleaved outbound publish) x 2 versions", cases, depth, alpha.len());
    for f in &fails { println!("BOUNDED-FAIL inbound_publishes_acked_and_surfaced_exactly_once {}", f); }
    assert!(fails.is_empty());
}
