// E-B (C02): an INDEPENDENT reference decoder for client-to-server MQTT control packets, written from the OASIS
// specifications (MQTT 5.0 os, MQTT 3.1.1 os) and NOT from the crate's decode.rs / mqtt/*.rs decoding code, plus a bounded
// comparison of what the crate's real Encoder emits against it.  The decoder is the oracle: strict, no recovery.
//
// Section numbers in comments/messages: "v5 x.y" = MQTT 5.0, "v3 x.y" = MQTT 3.1.1.
use crate::alias::OutboundAliasResolution;
use crate::encode::{EncodeResult, Encoder, EncodingContext};
use crate::mqtt::*;
use crate::validate::validate_packet_outbound;

type R<T> = Result<T, String>;

// ---------------------------------------------------------------------------------------------------------------------
// 1. neutral representation
// ---------------------------------------------------------------------------------------------------------------------

#[derive(Clone, Debug, Default, PartialEq, Eq)]
pub(crate) struct RefWill {
    pub qos: u8,
    pub retain: bool,
    pub topic: String,
    pub payload: Vec<u8>,
    // MQTT 5 will properties (all None / empty for 3.1.1)
    pub will_delay_interval: Option<u32>,
    pub payload_format_indicator: Option<u8>,
    pub message_expiry_interval: Option<u32>,
    pub content_type: Option<String>,
    pub response_topic: Option<String>,
    pub correlation_data: Option<Vec<u8>>,
    pub user_properties: Vec<(String, String)>,
}

#[derive(Clone, Debug, Default, PartialEq, Eq)]
pub(crate) struct RefSubscription {
    pub topic_filter: String,
    pub qos: u8,
    pub no_local: bool,            // v5 only
    pub retain_as_published: bool, // v5 only
    pub retain_handling: u8,       // v5 only
}

#[derive(Clone, Debug, Default, PartialEq, Eq)]
pub(crate) struct RefAck {
    pub packet_id: u16,
    pub reason_code: u8,                 // 0 when not on the wire
    pub reason_code_on_wire: bool,
    pub reason_string: Option<String>,
    pub user_properties: Vec<(String, String)>,
}

#[derive(Clone, Debug, PartialEq, Eq)]
pub(crate) enum RefPacket {
    Connect {
        protocol_level: u8,
        clean_start: bool,
        keep_alive: u16,
        client_id: String,
        will: Option<RefWill>,
        username: Option<String>,
        password: Option<Vec<u8>>,
        // MQTT 5 properties
        session_expiry_interval: Option<u32>,
        receive_maximum: Option<u16>,
        maximum_packet_size: Option<u32>,
        topic_alias_maximum: Option<u16>,
        request_response_information: Option<u8>,
        request_problem_information: Option<u8>,
        authentication_method: Option<String>,
        authentication_data: Option<Vec<u8>>,
        user_properties: Vec<(String, String)>,
    },
    Publish {
        dup: bool,
        qos: u8,
        retain: bool,
        topic: String,
        packet_id: Option<u16>,
        // MQTT 5 properties
        payload_format_indicator: Option<u8>,
        message_expiry_interval: Option<u32>,
        topic_alias: Option<u16>,
        response_topic: Option<String>,
        correlation_data: Option<Vec<u8>>,
        subscription_identifiers: Vec<u32>,
        content_type: Option<String>,
        user_properties: Vec<(String, String)>,
        payload: Vec<u8>,
    },
    Puback(RefAck),
    Pubrec(RefAck),
    Pubrel(RefAck),
    Pubcomp(RefAck),
    Subscribe { packet_id: u16, subscription_identifier: Option<u32>, user_properties: Vec<(String, String)>, subscriptions: Vec<RefSubscription> },
    Unsubscribe { packet_id: u16, user_properties: Vec<(String, String)>, topic_filters: Vec<String> },
    Pingreq,
    Disconnect { reason_code: u8, reason_code_on_wire: bool, session_expiry_interval: Option<u32>, reason_string: Option<String>, server_reference: Option<String>, user_properties: Vec<(String, String)> },
}

// ---------------------------------------------------------------------------------------------------------------------
// 2. the decoder
// ---------------------------------------------------------------------------------------------------------------------

struct Cursor<'a> { buf: &'a [u8], pos: usize, v5: bool }

impl<'a> Cursor<'a> {
    fn new(buf: &'a [u8], v5: bool) -> Self { Cursor { buf, pos: 0, v5 } }
    fn remaining(&self) -> usize { self.buf.len() - self.pos }
    fn at_end(&self) -> bool { self.pos == self.buf.len() }

    fn take(&mut self, n: usize, field: &str) -> R<&'a [u8]> {
        if self.remaining() < n { return Err(format!("{}: needs {} byte(s) at offset {} but only {} remain in the enclosing section", field, n, self.pos, self.remaining())); }
        let s = &self.buf[self.pos..self.pos + n];
        self.pos += n;
        Ok(s)
    }
    fn u8(&mut self, field: &str) -> R<u8> { Ok(self.take(1, field)?[0]) }
    fn u16(&mut self, field: &str) -> R<u16> { let b = self.take(2, field)?; Ok(u16::from_be_bytes([b[0], b[1]])) }               // v5 1.5.2 / v3 1.5.2: big-endian
    fn u32(&mut self, field: &str) -> R<u32> { let b = self.take(4, field)?; Ok(u32::from_be_bytes([b[0], b[1], b[2], b[3]])) }   // v5 1.5.3

    // Variable Byte Integer, v5 1.5.5 / v3 2.2.3: 7 bits per byte, least significant group first, at most 4 bytes.
    fn vbi(&mut self, field: &str) -> R<u32> {
        let mut value: u32 = 0;
        for i in 0..4 {
            let b = self.u8(field)?;
            value |= ((b & 0x7f) as u32) << (7 * i);
            if b & 0x80 == 0 {
                // [MQTT-1.5.5-1] (v5 only): the minimum number of bytes must be used; a multi-byte encoding is longer than
                // necessary exactly when its last byte is zero.
                if self.v5 && i > 0 && b == 0 { return Err(format!("{}: Variable Byte Integer not minimally encoded [MQTT-1.5.5-1]", field)); }
                return Ok(value);
            }
        }
        Err(format!("{}: Variable Byte Integer longer than 4 bytes", field))
    }

    fn binary(&mut self, field: &str) -> R<Vec<u8>> {                                                                              // v5 1.5.6: two byte length + bytes
        let n = self.u16(&format!("{} length prefix", field))? as usize;
        Ok(self.take(n, field)?.to_vec())
    }

    // UTF-8 Encoded String, v5 1.5.4 / v3 1.5.3: two byte length + well formed UTF-8, no surrogates (from_utf8 rejects
    // them), no U+0000 [MQTT-1.5.4-2] / [MQTT-1.5.3-2].
    fn utf8(&mut self, field: &str) -> R<String> {
        let raw = self.binary(field)?;
        let s = String::from_utf8(raw).map_err(|e| format!("{}: ill-formed UTF-8 ({}) [MQTT-1.5.4-1]", field, e))?;
        if s.contains('\u{0}') { return Err(format!("{}: contains U+0000 [MQTT-1.5.4-2]", field)); }
        Ok(s)
    }

    fn sub(&mut self, n: usize, field: &str) -> R<Cursor<'a>> { let v5 = self.v5; Ok(Cursor::new(self.take(n, field)?, v5)) }
    fn finish(&self, what: &str) -> R<()> { if self.at_end() { Ok(()) } else { Err(format!("{}: {} unexpected trailing byte(s) inside the declared length", what, self.remaining())) } }
}

// --- MQTT 5 properties (v5 2.2.2.2, table 2-4) ---

#[derive(Clone, Copy, Debug, PartialEq, Eq)]
enum PropType { Byte, TwoByte, FourByte, Vbi, Utf8, Binary, Utf8Pair }

#[derive(Clone, Copy, Debug, PartialEq, Eq)]
enum PropOwner { Connect, Will, Publish, PubAckFamily, Subscribe, Unsubscribe, Disconnect }

#[derive(Clone, Debug, PartialEq, Eq)]
enum PropValue { Byte(u8), TwoByte(u16), FourByte(u32), Vbi(u32), Utf8(String), Binary(Vec<u8>), Utf8Pair(String, String) }

const P_PAYLOAD_FORMAT: u8 = 0x01; const P_MESSAGE_EXPIRY: u8 = 0x02; const P_CONTENT_TYPE: u8 = 0x03; const P_RESPONSE_TOPIC: u8 = 0x08;
const P_CORRELATION_DATA: u8 = 0x09; const P_SUBSCRIPTION_ID: u8 = 0x0B; const P_SESSION_EXPIRY: u8 = 0x11; const P_AUTH_METHOD: u8 = 0x15;
const P_AUTH_DATA: u8 = 0x16; const P_REQUEST_PROBLEM_INFO: u8 = 0x17; const P_WILL_DELAY: u8 = 0x18; const P_REQUEST_RESPONSE_INFO: u8 = 0x19;
const P_SERVER_REFERENCE: u8 = 0x1C; const P_REASON_STRING: u8 = 0x1F; const P_RECEIVE_MAXIMUM: u8 = 0x21; const P_TOPIC_ALIAS_MAXIMUM: u8 = 0x22;
const P_TOPIC_ALIAS: u8 = 0x23; const P_USER_PROPERTY: u8 = 0x26; const P_MAXIMUM_PACKET_SIZE: u8 = 0x27;

/// Name and data type of every property identifier defined by MQTT 5 (including the server-only ones, so that they are
/// reported as "not allowed here" rather than "unknown").
fn property_definition(id: u8) -> Option<(&'static str, PropType)> {
    Some(match id {
        0x01 => ("Payload Format Indicator", PropType::Byte),
        0x02 => ("Message Expiry Interval", PropType::FourByte),
        0x03 => ("Content Type", PropType::Utf8),
        0x08 => ("Response Topic", PropType::Utf8),
        0x09 => ("Correlation Data", PropType::Binary),
        0x0B => ("Subscription Identifier", PropType::Vbi),
        0x11 => ("Session Expiry Interval", PropType::FourByte),
        0x12 => ("Assigned Client Identifier", PropType::Utf8),
        0x13 => ("Server Keep Alive", PropType::TwoByte),
        0x15 => ("Authentication Method", PropType::Utf8),
        0x16 => ("Authentication Data", PropType::Binary),
        0x17 => ("Request Problem Information", PropType::Byte),
        0x18 => ("Will Delay Interval", PropType::FourByte),
        0x19 => ("Request Response Information", PropType::Byte),
        0x1A => ("Response Information", PropType::Utf8),
        0x1C => ("Server Reference", PropType::Utf8),
        0x1F => ("Reason String", PropType::Utf8),
        0x21 => ("Receive Maximum", PropType::TwoByte),
        0x22 => ("Topic Alias Maximum", PropType::TwoByte),
        0x23 => ("Topic Alias", PropType::TwoByte),
        0x24 => ("Maximum QoS", PropType::Byte),
        0x25 => ("Retain Available", PropType::Byte),
        0x26 => ("User Property", PropType::Utf8Pair),
        0x27 => ("Maximum Packet Size", PropType::FourByte),
        0x28 => ("Wildcard Subscription Available", PropType::Byte),
        0x29 => ("Subscription Identifier Available", PropType::Byte),
        0x2A => ("Shared Subscription Available", PropType::Byte),
        _ => return None,
    })
}

/// Which properties may appear in which client-to-server packet (v5 3.1.2.11, 3.1.3.2, 3.3.2.3, 3.4.2.2, 3.8.2.1, 3.10.2.1, 3.14.2.2).
fn property_allowed(owner: PropOwner, id: u8) -> bool {
    match owner {
        PropOwner::Connect => matches!(id, P_SESSION_EXPIRY | P_RECEIVE_MAXIMUM | P_MAXIMUM_PACKET_SIZE | P_TOPIC_ALIAS_MAXIMUM | P_REQUEST_RESPONSE_INFO | P_REQUEST_PROBLEM_INFO | P_USER_PROPERTY | P_AUTH_METHOD | P_AUTH_DATA),
        PropOwner::Will => matches!(id, P_WILL_DELAY | P_PAYLOAD_FORMAT | P_MESSAGE_EXPIRY | P_CONTENT_TYPE | P_RESPONSE_TOPIC | P_CORRELATION_DATA | P_USER_PROPERTY),
        // Subscription Identifier is a PUBLISH property, but [MQTT-3.3.4-6]: a PUBLISH sent from a Client to a Server MUST NOT contain it.
        PropOwner::Publish => matches!(id, P_PAYLOAD_FORMAT | P_MESSAGE_EXPIRY | P_TOPIC_ALIAS | P_RESPONSE_TOPIC | P_CORRELATION_DATA | P_USER_PROPERTY | P_CONTENT_TYPE),
        PropOwner::PubAckFamily => matches!(id, P_REASON_STRING | P_USER_PROPERTY),
        PropOwner::Subscribe => matches!(id, P_SUBSCRIPTION_ID | P_USER_PROPERTY),
        PropOwner::Unsubscribe => matches!(id, P_USER_PROPERTY),
        PropOwner::Disconnect => matches!(id, P_SESSION_EXPIRY | P_REASON_STRING | P_USER_PROPERTY | P_SERVER_REFERENCE),
    }
}

struct Props(Vec<(u8, PropValue)>);

impl Props {
    fn get(&self, id: u8) -> Option<&PropValue> { self.0.iter().find(|(i, _)| *i == id).map(|(_, v)| v) }
    fn byte(&self, id: u8) -> Option<u8> { match self.get(id) { Some(PropValue::Byte(v)) => Some(*v), _ => None } }
    fn two(&self, id: u8) -> Option<u16> { match self.get(id) { Some(PropValue::TwoByte(v)) => Some(*v), _ => None } }
    fn four(&self, id: u8) -> Option<u32> { match self.get(id) { Some(PropValue::FourByte(v)) => Some(*v), _ => None } }
    fn vbi(&self, id: u8) -> Option<u32> { match self.get(id) { Some(PropValue::Vbi(v)) => Some(*v), _ => None } }
    fn string(&self, id: u8) -> Option<String> { match self.get(id) { Some(PropValue::Utf8(v)) => Some(v.clone()), _ => None } }
    fn binary(&self, id: u8) -> Option<Vec<u8>> { match self.get(id) { Some(PropValue::Binary(v)) => Some(v.clone()), _ => None } }
    fn user(&self) -> Vec<(String, String)> { self.0.iter().filter_map(|(_, v)| if let PropValue::Utf8Pair(k, w) = v { Some((k.clone(), w.clone())) } else { None }).collect() }
}

/// Property Length (VBI) followed by exactly that many bytes of properties (v5 2.2.2).
fn read_properties(cur: &mut Cursor, owner: PropOwner, what: &str) -> R<Props> {
    let len = cur.vbi(&format!("{} Property Length", what))? as usize;
    let mut sec = cur.sub(len, &format!("{} property section (Property Length {})", what, len))?;
    let mut props: Vec<(u8, PropValue)> = Vec::new();
    while !sec.at_end() {
        // v5 2.2.2.2: the identifier is itself a Variable Byte Integer; every defined identifier fits in one byte.
        let id32 = sec.vbi(&format!("{} property identifier", what))?;
        let (name, ptype) = (if id32 <= 0xff { property_definition(id32 as u8) } else { None })
            .ok_or_else(|| format!("{}: unknown property identifier 0x{:02X} at offset {} of the property section (v5 2.2.2.2)", what, id32, sec.pos - 1))?;
        let id = id32 as u8;
        if !property_allowed(owner, id) { return Err(format!("{}: property 0x{:02X} {} is not allowed in this packet (v5 2.2.2.2 table 2-4{})", what, id, name, if id == P_SUBSCRIPTION_ID { "; [MQTT-3.3.4-6]" } else { "" })); }
        // Only the User Property may appear more than once in a client-to-server packet ("It is a Protocol Error to include the ... more than once").
        if id != P_USER_PROPERTY && props.iter().any(|(i, _)| *i == id) { return Err(format!("{}: property 0x{:02X} {} included more than once (Protocol Error)", what, id, name)); }
        let field = format!("{} property 0x{:02X} {}", what, id, name);
        let value = match ptype {
            PropType::Byte => PropValue::Byte(sec.u8(&field)?),
            PropType::TwoByte => PropValue::TwoByte(sec.u16(&field)?),
            PropType::FourByte => PropValue::FourByte(sec.u32(&field)?),
            PropType::Vbi => PropValue::Vbi(sec.vbi(&field)?),
            PropType::Utf8 => PropValue::Utf8(sec.utf8(&field)?),
            PropType::Binary => PropValue::Binary(sec.binary(&field)?),
            PropType::Utf8Pair => { let k = sec.utf8(&format!("{} name", field))?; let v = sec.utf8(&format!("{} value", field))?; PropValue::Utf8Pair(k, v) }
        };
        // value constraints the specification declares to be Protocol Errors / Malformed
        match (&value, id) {
            (PropValue::Byte(v), P_PAYLOAD_FORMAT) | (PropValue::Byte(v), P_REQUEST_PROBLEM_INFO) | (PropValue::Byte(v), P_REQUEST_RESPONSE_INFO) if *v > 1 => return Err(format!("{}: value {} is neither 0 nor 1", field, v)),
            (PropValue::TwoByte(0), P_RECEIVE_MAXIMUM) => return Err(format!("{}: value 0 is a Protocol Error (v5 3.1.2.11.3)", field)),
            (PropValue::TwoByte(0), P_TOPIC_ALIAS) => return Err(format!("{}: value 0 is not permitted [MQTT-3.3.2-8]", field)),
            (PropValue::FourByte(0), P_MAXIMUM_PACKET_SIZE) => return Err(format!("{}: value 0 is a Protocol Error (v5 3.1.2.11.4)", field)),
            (PropValue::Vbi(0), P_SUBSCRIPTION_ID) => return Err(format!("{}: value 0 is a Protocol Error (v5 3.8.2.1.2)", field)),
            (PropValue::Utf8(t), P_RESPONSE_TOPIC) => check_topic_name(t, &field)?,
            _ => {}
        }
        props.push((id, value));
    }
    let p = Props(props);
    if p.get(P_AUTH_DATA).is_some() && p.get(P_AUTH_METHOD).is_none() { return Err(format!("{}: Authentication Data without Authentication Method is a Protocol Error (v5 3.1.2.11.10)", what)); }
    Ok(p)
}

// --- topic names and filters (v5 4.7 / v3 4.7) ---

fn check_topic_name(t: &str, field: &str) -> R<()> {
    if t.is_empty() { return Err(format!("{}: topic name must be at least one character long [MQTT-4.7.3-1]", field)); }
    if t.contains('#') || t.contains('+') { return Err(format!("{}: topic name contains a wildcard character [MQTT-3.3.2-2]", field)); }
    Ok(())
}

fn check_topic_filter(f: &str, field: &str) -> R<()> {
    if f.is_empty() { return Err(format!("{}: topic filter must be at least one character long [MQTT-4.7.3-1]", field)); }
    let mut rest = f;
    if let Some(after) = f.strip_prefix("$share/") {                                    // v5 4.8.2: $share/{ShareName}/{filter}
        let (name, filter) = after.split_once('/').ok_or_else(|| format!("{}: shared subscription without a topic filter [MQTT-4.8.2-2]", field))?;
        if name.is_empty() || name.contains('#') || name.contains('+') { return Err(format!("{}: invalid ShareName [MQTT-4.8.2-1]", field)); }
        if filter.is_empty() { return Err(format!("{}: shared subscription with an empty topic filter [MQTT-4.8.2-2]", field)); }
        rest = filter;
    }
    let levels: Vec<&str> = rest.split('/').collect();
    for (i, level) in levels.iter().enumerate() {
        if level.contains('#') && (*level != "#" || i + 1 != levels.len()) { return Err(format!("{}: '#' must be the last character and occupy a whole level [MQTT-4.7.1-1]", field)); }
        if level.contains('+') && *level != "+" { return Err(format!("{}: '+' must occupy a whole level [MQTT-4.7.1-2]", field)); }
    }
    Ok(())
}

fn packet_identifier(cur: &mut Cursor, what: &str) -> R<u16> {
    let id = cur.u16(&format!("{} Packet Identifier", what))?;
    if id == 0 { return Err(format!("{}: Packet Identifier is zero [MQTT-2.2.1-3] (v3 [MQTT-2.3.1-1])", what)); }
    Ok(id)
}

// --- one function per packet type; `body` spans exactly Remaining Length bytes ---

fn decode_connect(body: &mut Cursor) -> R<RefPacket> {
    let v5 = body.v5;
    // v5 3.1.2.1 / v3 3.1.2.1: Protocol Name is the UTF-8 string "MQTT"; 3.1.2.2: level 5 resp. 4
    let name = body.utf8("CONNECT Protocol Name")?;
    if name != "MQTT" { return Err(format!("CONNECT: Protocol Name is {:?}, not \"MQTT\" [MQTT-3.1.2-1]", name)); }
    let level = body.u8("CONNECT Protocol Level")?;
    let want = if v5 { 5 } else { 4 };
    if level != want { return Err(format!("CONNECT: Protocol Level/Version is {}, expected {} [MQTT-3.1.2-2]", level, want)); }
    // 3.1.2.3 Connect Flags: 7 User Name, 6 Password, 5 Will Retain, 4-3 Will QoS, 2 Will Flag, 1 Clean Start/Session, 0 reserved
    let flags = body.u8("CONNECT Connect Flags")?;
    if flags & 0x01 != 0 { return Err(format!("CONNECT: reserved Connect Flag bit 0 is set (flags 0x{:02X}) [MQTT-3.1.2-3]", flags)); }
    let clean_start = flags & 0x02 != 0;
    let will_flag = flags & 0x04 != 0;
    let will_qos = (flags >> 3) & 0x03;
    let will_retain = flags & 0x20 != 0;
    let password_flag = flags & 0x40 != 0;
    let username_flag = flags & 0x80 != 0;
    if will_qos == 3 { return Err(format!("CONNECT: Will QoS 3 (flags 0x{:02X}) [MQTT-3.1.2-12] (v3 [MQTT-3.1.2-14])", flags)); }
    if !will_flag && will_qos != 0 { return Err(format!("CONNECT: Will QoS {} without Will Flag (flags 0x{:02X}) [MQTT-3.1.2-11] (v3 [MQTT-3.1.2-13])", will_qos, flags)); }
    if !will_flag && will_retain { return Err(format!("CONNECT: Will Retain without Will Flag (flags 0x{:02X}) [MQTT-3.1.2-13] (v3 [MQTT-3.1.2-15])", flags)); }
    if !v5 && password_flag && !username_flag { return Err(format!("CONNECT (3.1.1): Password Flag set while User Name Flag is 0 (flags 0x{:02X}) [MQTT-3.1.2-22]", flags)); }
    let keep_alive = body.u16("CONNECT Keep Alive")?;
    let props = if v5 { read_properties(body, PropOwner::Connect, "CONNECT")? } else { Props(Vec::new()) };
    // 3.1.3 payload, in this order: Client Identifier, Will Properties, Will Topic, Will Payload, User Name, Password
    let client_id = body.utf8("CONNECT Client Identifier")?;
    let will = if will_flag {
        let wp = if v5 { read_properties(body, PropOwner::Will, "CONNECT Will")? } else { Props(Vec::new()) };
        let topic = body.utf8("CONNECT Will Topic")?;
        check_topic_name(&topic, "CONNECT Will Topic")?;
        let payload = body.binary("CONNECT Will Payload")?;
        Some(RefWill { qos: will_qos, retain: will_retain, topic, payload, will_delay_interval: wp.four(P_WILL_DELAY), payload_format_indicator: wp.byte(P_PAYLOAD_FORMAT),
            message_expiry_interval: wp.four(P_MESSAGE_EXPIRY), content_type: wp.string(P_CONTENT_TYPE), response_topic: wp.string(P_RESPONSE_TOPIC), correlation_data: wp.binary(P_CORRELATION_DATA), user_properties: wp.user() })
    } else { None };
    let username = if username_flag { Some(body.utf8("CONNECT User Name")?) } else { None };
    let password = if password_flag { Some(body.binary("CONNECT Password")?) } else { None };
    Ok(RefPacket::Connect { protocol_level: level, clean_start, keep_alive, client_id, will, username, password,
        session_expiry_interval: props.four(P_SESSION_EXPIRY), receive_maximum: props.two(P_RECEIVE_MAXIMUM), maximum_packet_size: props.four(P_MAXIMUM_PACKET_SIZE),
        topic_alias_maximum: props.two(P_TOPIC_ALIAS_MAXIMUM), request_response_information: props.byte(P_REQUEST_RESPONSE_INFO), request_problem_information: props.byte(P_REQUEST_PROBLEM_INFO),
        authentication_method: props.string(P_AUTH_METHOD), authentication_data: props.binary(P_AUTH_DATA), user_properties: props.user() })
}

fn decode_publish(flags: u8, body: &mut Cursor) -> R<RefPacket> {
    let v5 = body.v5;
    // 3.3.1: bit 3 DUP, bits 2-1 QoS, bit 0 RETAIN
    let dup = flags & 0x08 != 0;
    let qos = (flags >> 1) & 0x03;
    let retain = flags & 0x01 != 0;
    if qos == 3 { return Err("PUBLISH: both QoS bits set [MQTT-3.3.1-4]".to_string()); }
    if qos == 0 && dup { return Err("PUBLISH: DUP flag set on a QoS 0 message [MQTT-3.3.1-2]".to_string()); }
    let topic = body.utf8("PUBLISH Topic Name")?;
    if topic.contains('#') || topic.contains('+') { return Err("PUBLISH: Topic Name contains a wildcard character [MQTT-3.3.2-2]".to_string()); }
    let packet_id = if qos > 0 { Some(packet_identifier(body, "PUBLISH")?) } else { None };
    let props = if v5 { read_properties(body, PropOwner::Publish, "PUBLISH")? } else { Props(Vec::new()) };
    if topic.is_empty() {
        if !v5 { return Err("PUBLISH (3.1.1): zero length Topic Name [MQTT-4.7.3-1]".to_string()); }
        if props.two(P_TOPIC_ALIAS).is_none() { return Err("PUBLISH: zero length Topic Name without a Topic Alias is a Protocol Error (v5 3.3.2.1)".to_string()); }
    }
    let payload = body.take(body.remaining(), "PUBLISH payload")?.to_vec();
    Ok(RefPacket::Publish { dup, qos, retain, topic, packet_id, payload_format_indicator: props.byte(P_PAYLOAD_FORMAT), message_expiry_interval: props.four(P_MESSAGE_EXPIRY),
        topic_alias: props.two(P_TOPIC_ALIAS), response_topic: props.string(P_RESPONSE_TOPIC), correlation_data: props.binary(P_CORRELATION_DATA), subscription_identifiers: Vec::new(),
        content_type: props.string(P_CONTENT_TYPE), user_properties: props.user(), payload })
}

fn ack_reason_code_valid(ptype: u8, rc: u8) -> bool {
    match ptype {
        4 | 5 => matches!(rc, 0x00 | 0x10 | 0x80 | 0x83 | 0x87 | 0x90 | 0x91 | 0x97 | 0x99),     // v5 3.4.2.1 / 3.5.2.1
        _ => matches!(rc, 0x00 | 0x92),                                                            // v5 3.6.2.1 / 3.7.2.1
    }
}

/// PUBACK (4), PUBREC (5), PUBREL (6), PUBCOMP (7): v5 3.4 - 3.7, v3 3.4 - 3.7
fn decode_ack(ptype: u8, body: &mut Cursor) -> R<RefAck> {
    let name = ["PUBACK", "PUBREC", "PUBREL", "PUBCOMP"][(ptype - 4) as usize];
    let rem = body.remaining();
    if !body.v5 && rem != 2 { return Err(format!("{} (3.1.1): Remaining Length is {}, must be 2", name, rem)); }
    if rem < 2 { return Err(format!("{}: Remaining Length is {}, must be at least 2", name, rem)); }
    let mut ack = RefAck { packet_id: packet_identifier(body, name)?, ..Default::default() };
    if rem >= 3 {                                   // "Byte 3 in the Variable Header is the Reason Code. If the Remaining Length is 2, then ... 0x00 (Success)"
        ack.reason_code = body.u8(&format!("{} Reason Code", name))?;
        ack.reason_code_on_wire = true;
        if !ack_reason_code_valid(ptype, ack.reason_code) { return Err(format!("{}: Reason Code 0x{:02X} is not defined for this packet [MQTT-3.{}.2-1]", name, ack.reason_code, ptype)); }
    }
    if rem >= 4 {                                   // "If the Remaining Length is less than 4 there is no Property Length and the value of 0 is used"
        let props = read_properties(body, PropOwner::PubAckFamily, name)?;
        ack.reason_string = props.string(P_REASON_STRING);
        ack.user_properties = props.user();
    }
    Ok(ack)
}

fn decode_subscribe(body: &mut Cursor) -> R<RefPacket> {
    let v5 = body.v5;
    let packet_id = packet_identifier(body, "SUBSCRIBE")?;
    let props = if v5 { read_properties(body, PropOwner::Subscribe, "SUBSCRIBE")? } else { Props(Vec::new()) };
    let mut subscriptions = Vec::new();
    while !body.at_end() {
        let field = format!("SUBSCRIBE Topic Filter #{}", subscriptions.len());
        let topic_filter = body.utf8(&field)?;
        check_topic_filter(&topic_filter, &field)?;
        let o = body.u8(&format!("SUBSCRIBE Subscription Options #{}", subscriptions.len()))?;
        let qos = o & 0x03;
        if qos == 3 { return Err(format!("SUBSCRIBE: options byte 0x{:02X} requests QoS 3 (v5 3.8.3.1 / v3 [MQTT-3-8.3-4])", o)); }
        if v5 {
            // v5 3.8.3.1: bits 1-0 QoS, bit 2 No Local, bit 3 Retain As Published, bits 5-4 Retain Handling, bits 7-6 reserved
            if o & 0xC0 != 0 { return Err(format!("SUBSCRIBE: reserved bits 6-7 of Subscription Options 0x{:02X} are not zero [MQTT-3.8.3-5]", o)); }
            let rh = (o >> 4) & 0x03;
            if rh == 3 { return Err(format!("SUBSCRIBE: Retain Handling 3 in Subscription Options 0x{:02X} is a Protocol Error (v5 3.8.3.1)", o)); }
            let no_local = o & 0x04 != 0;
            if no_local && topic_filter.starts_with("$share/") { return Err("SUBSCRIBE: No Local on a Shared Subscription [MQTT-3.8.3-4]".to_string()); }
            subscriptions.push(RefSubscription { topic_filter, qos, no_local, retain_as_published: o & 0x08 != 0, retain_handling: rh });
        } else {
            // v3 3.8.3: the upper 6 bits of the Requested QoS byte are reserved and must be zero [MQTT-3-8.3-4]
            if o & 0xFC != 0 { return Err(format!("SUBSCRIBE (3.1.1): reserved upper 6 bits of Requested QoS byte 0x{:02X} are not zero [MQTT-3-8.3-4]", o)); }
            subscriptions.push(RefSubscription { topic_filter, qos, ..Default::default() });
        }
    }
    if subscriptions.is_empty() { return Err("SUBSCRIBE: payload contains no Topic Filter / Subscription Options pair [MQTT-3.8.3-2] (v3 [MQTT-3.8.3-3])".to_string()); }
    Ok(RefPacket::Subscribe { packet_id, subscription_identifier: props.vbi(P_SUBSCRIPTION_ID), user_properties: props.user(), subscriptions })
}

fn decode_unsubscribe(body: &mut Cursor) -> R<RefPacket> {
    let packet_id = packet_identifier(body, "UNSUBSCRIBE")?;
    let props = if body.v5 { read_properties(body, PropOwner::Unsubscribe, "UNSUBSCRIBE")? } else { Props(Vec::new()) };
    let mut topic_filters = Vec::new();
    while !body.at_end() {
        let field = format!("UNSUBSCRIBE Topic Filter #{}", topic_filters.len());
        let f = body.utf8(&field)?;
        check_topic_filter(&f, &field)?;
        topic_filters.push(f);
    }
    if topic_filters.is_empty() { return Err("UNSUBSCRIBE: payload contains no Topic Filter [MQTT-3.10.3-2]".to_string()); }
    Ok(RefPacket::Unsubscribe { packet_id, user_properties: props.user(), topic_filters })
}

fn disconnect_reason_code_valid(rc: u8) -> bool {                                                    // v5 3.14.2.1, table 3-13
    matches!(rc, 0x00 | 0x04 | 0x80 | 0x81 | 0x82 | 0x83 | 0x87 | 0x89 | 0x8B | 0x8D | 0x8E | 0x8F | 0x90 | 0x93 | 0x94 | 0x95 | 0x96 | 0x97 | 0x98 | 0x99 | 0x9A | 0x9B | 0x9C | 0x9D | 0x9E | 0x9F | 0xA0 | 0xA1 | 0xA2)
}

fn decode_disconnect(body: &mut Cursor) -> R<RefPacket> {
    let rem = body.remaining();
    if !body.v5 {
        if rem != 0 { return Err(format!("DISCONNECT (3.1.1): Remaining Length is {}, must be 0 (v3 3.14.1)", rem)); }
        return Ok(RefPacket::Disconnect { reason_code: 0, reason_code_on_wire: false, session_expiry_interval: None, reason_string: None, server_reference: None, user_properties: Vec::new() });
    }
    let (mut reason_code, mut on_wire) = (0u8, false);
    if rem >= 1 {                                   // "If the Remaining Length is less than 1 the value of 0x00 (Normal disconnection) is used"
        reason_code = body.u8("DISCONNECT Reason Code")?;
        on_wire = true;
        if !disconnect_reason_code_valid(reason_code) { return Err(format!("DISCONNECT: Reason Code 0x{:02X} is not a Disconnect Reason Code [MQTT-3.14.2-1]", reason_code)); }
    }
    // "If the Remaining Length is less than 2, a value of 0 is used" for the Property Length
    let props = if rem >= 2 { read_properties(body, PropOwner::Disconnect, "DISCONNECT")? } else { Props(Vec::new()) };
    Ok(RefPacket::Disconnect { reason_code, reason_code_on_wire: on_wire, session_expiry_interval: props.four(P_SESSION_EXPIRY), reason_string: props.string(P_REASON_STRING),
        server_reference: props.string(P_SERVER_REFERENCE), user_properties: props.user() })
}

/// Decodes exactly one client-to-server control packet from the front of `bytes`.
pub(crate) fn ref_decode(bytes: &[u8], version5: bool) -> Result<(RefPacket, usize), String> {
    let mut cur = Cursor::new(bytes, version5);
    // fixed header, v5 2.1.1 / v3 2.2: byte 1 = type (bits 7-4) + flags (bits 3-0); then Remaining Length (VBI)
    let first = cur.u8("fixed header byte 1")?;
    let (ptype, flags) = (first >> 4, first & 0x0f);
    // v5 table 2-2 / v3 table 2.2: flag bits of every packet type other than PUBLISH are fixed [MQTT-2.1.3-1] (v3 [MQTT-2.2.2-1])
    let required_flags: Option<u8> = match ptype {
        1 | 4 | 5 | 7 | 12 | 14 => Some(0),
        6 | 8 | 10 => Some(0b0010),
        3 => None,
        15 if version5 => return Err("AUTH packets are not supported by this reference decoder".to_string()),
        0 | 15 => return Err(format!("fixed header byte 0x{:02X}: control packet type {} is reserved", first, ptype)),
        2 | 9 | 11 | 13 => return Err(format!("fixed header byte 0x{:02X}: control packet type {} is only sent from server to client", first, ptype)),
        _ => unreachable!(),
    };
    if let Some(want) = required_flags {
        if flags != want { return Err(format!("fixed header byte 0x{:02X}: flags are 0b{:04b}, this packet type requires 0b{:04b} [MQTT-2.1.3-1]", first, flags, want)); }
    }
    let rem = cur.vbi("Remaining Length")? as usize;
    let header_len = cur.pos;
    let mut body = cur.sub(rem, &format!("packet body (Remaining Length {})", rem))?;
    let packet = match ptype {
        1 => decode_connect(&mut body)?,
        3 => decode_publish(flags, &mut body)?,
        4 => RefPacket::Puback(decode_ack(4, &mut body)?),
        5 => RefPacket::Pubrec(decode_ack(5, &mut body)?),
        6 => RefPacket::Pubrel(decode_ack(6, &mut body)?),
        7 => RefPacket::Pubcomp(decode_ack(7, &mut body)?),
        8 => decode_subscribe(&mut body)?,
        10 => decode_unsubscribe(&mut body)?,
        12 => { if rem != 0 { return Err(format!("PINGREQ: Remaining Length is {}, must be 0 (3.12.1)", rem)); } RefPacket::Pingreq }
        14 => decode_disconnect(&mut body)?,
        _ => unreachable!(),
    };
    body.finish(&format!("packet type {} body (Remaining Length {})", ptype, rem))?;
    Ok((packet, header_len + rem))
}

// ---------------------------------------------------------------------------------------------------------------------
// 3. comparison with the crate's logical packet value
// ---------------------------------------------------------------------------------------------------------------------

fn same<T: PartialEq + std::fmt::Debug>(field: &str, expected: T, got: T) -> R<()> {
    if expected == got { Ok(()) } else { Err(format!("{}: packet value is {}, wire carries {}", field, brief(&expected), brief(&got))) }
}
fn brief<T: std::fmt::Debug>(v: &T) -> String { let s = format!("{:?}", v); if s.len() > 60 { format!("{}...({} chars)", &s[..60], s.len()) } else { s } }
fn ups_of(p: &Option<Vec<UserProperty>>) -> Vec<(String, String)> { p.as_ref().map(|v| v.iter().map(|u| (u.name().to_string(), u.value().to_string())).collect()).unwrap_or_default() }
fn bytes_of(p: &Option<Vec<u8>>) -> Vec<u8> { p.clone().unwrap_or_default() }       // an empty payload equals no payload

fn ack_eq(name: &str, packet_id: u16, reason_code: u8, reason_string: &Option<String>, user_properties: &Option<Vec<UserProperty>>, got: &RefAck, v5: bool) -> R<()> {
    same(&format!("{} packet id", name), packet_id, got.packet_id)?;
    if v5 {
        same(&format!("{} reason code", name), reason_code, got.reason_code)?;
        same(&format!("{} reason string", name), reason_string.clone(), got.reason_string.clone())?;
        same(&format!("{} user properties", name), ups_of(user_properties), got.user_properties.clone())?;
    } else if got.reason_code_on_wire || got.reason_string.is_some() || !got.user_properties.is_empty() {
        return Err(format!("{} (3.1.1): MQTT 5 fields on the wire", name));
    }
    Ok(())
}

/// Field by field comparison of the reference decoding `got` with the logical packet `expected` that was given to the
/// encoder.  `alias` / `skip_topic` are the outbound alias resolution the PUBLISH was encoded with (MQTT 5 only).
pub(crate) fn logical_eq(expected: &MqttPacket, got: &RefPacket, version5: bool, alias: Option<u16>, skip_topic: bool) -> Result<(), String> {
    let v5 = version5;
    match (expected, got) {
        (MqttPacket::Connect(e), RefPacket::Connect { protocol_level, clean_start, keep_alive, client_id, will, username, password, session_expiry_interval, receive_maximum,
            maximum_packet_size, topic_alias_maximum, request_response_information, request_problem_information, authentication_method, authentication_data, user_properties }) => {
            same("CONNECT protocol level", if v5 { 5u8 } else { 4 }, *protocol_level)?;
            same("CONNECT clean start", e.clean_start, *clean_start)?;
            same("CONNECT keep alive", e.keep_alive_interval_seconds, *keep_alive)?;
            same("CONNECT client id", e.client_id.clone().unwrap_or_default(), client_id.clone())?;
            same("CONNECT username", e.username.clone(), username.clone())?;
            same("CONNECT password", e.password.clone(), password.clone())?;
            same("CONNECT will presence", e.will.is_some(), will.is_some())?;
            if let (Some(ew), Some(gw)) = (&e.will, will) {
                same("CONNECT will qos", ew.qos as u8, gw.qos)?;
                same("CONNECT will retain", ew.retain, gw.retain)?;
                same("CONNECT will topic", ew.topic.clone(), gw.topic.clone())?;
                same("CONNECT will payload", bytes_of(&ew.payload), gw.payload.clone())?;
                if v5 {
                    same("CONNECT will delay interval", e.will_delay_interval_seconds, gw.will_delay_interval)?;
                    same("CONNECT will payload format", ew.payload_format.map(|f| f as u8), gw.payload_format_indicator)?;
                    same("CONNECT will message expiry", ew.message_expiry_interval_seconds, gw.message_expiry_interval)?;
                    same("CONNECT will content type", ew.content_type.clone(), gw.content_type.clone())?;
                    same("CONNECT will response topic", ew.response_topic.clone(), gw.response_topic.clone())?;
                    same("CONNECT will correlation data", ew.correlation_data.clone(), gw.correlation_data.clone())?;
                    same("CONNECT will user properties", ups_of(&ew.user_properties), gw.user_properties.clone())?;
                } else {
                    same("CONNECT (3.1.1) will carries no properties", RefWill { qos: gw.qos, retain: gw.retain, topic: gw.topic.clone(), payload: gw.payload.clone(), ..Default::default() }, gw.clone())?;
                }
            }
            if v5 {
                same("CONNECT session expiry interval", e.session_expiry_interval_seconds, *session_expiry_interval)?;
                same("CONNECT receive maximum", e.receive_maximum, *receive_maximum)?;
                same("CONNECT maximum packet size", e.maximum_packet_size_bytes, *maximum_packet_size)?;
                same("CONNECT topic alias maximum", e.topic_alias_maximum, *topic_alias_maximum)?;
                same("CONNECT request response information", e.request_response_information.map(|b| b as u8), *request_response_information)?;
                same("CONNECT request problem information", e.request_problem_information.map(|b| b as u8), *request_problem_information)?;
                same("CONNECT authentication method", e.authentication_method.clone(), authentication_method.clone())?;
                same("CONNECT authentication data", e.authentication_data.clone(), authentication_data.clone())?;
                same("CONNECT user properties", ups_of(&e.user_properties), user_properties.clone())?;
            } else if session_expiry_interval.is_some() || receive_maximum.is_some() || maximum_packet_size.is_some() || topic_alias_maximum.is_some() || request_response_information.is_some()
                || request_problem_information.is_some() || authentication_method.is_some() || authentication_data.is_some() || !user_properties.is_empty() {
                return Err("CONNECT (3.1.1): MQTT 5 properties on the wire".to_string());
            }
            Ok(())
        }
        (MqttPacket::Publish(e), RefPacket::Publish { dup, qos, retain, topic, packet_id, payload_format_indicator, message_expiry_interval, topic_alias, response_topic, correlation_data,
            subscription_identifiers, content_type, user_properties, payload }) => {
            same("PUBLISH dup", e.duplicate, *dup)?;
            same("PUBLISH qos", e.qos as u8, *qos)?;
            same("PUBLISH retain", e.retain, *retain)?;
            // topic aliasing exists in MQTT 5 only; the resolution decides what goes on the wire, not the packet's own topic_alias field
            let expected_topic = if v5 && skip_topic { String::new() } else { e.topic.clone() };
            same("PUBLISH topic", expected_topic, topic.clone())?;
            same("PUBLISH packet id", if e.qos as u8 > 0 { Some(e.packet_id) } else { None }, *packet_id)?;
            same("PUBLISH payload", bytes_of(&e.payload), payload.clone())?;
            if v5 {
                if skip_topic && alias.is_none() { return Err("PUBLISH: skip_topic requested without an alias".to_string()); }
                same("PUBLISH topic alias", alias, *topic_alias)?;
                same("PUBLISH payload format", e.payload_format.map(|f| f as u8), *payload_format_indicator)?;
                same("PUBLISH message expiry", e.message_expiry_interval_seconds, *message_expiry_interval)?;
                same("PUBLISH response topic", e.response_topic.clone(), response_topic.clone())?;
                same("PUBLISH correlation data", e.correlation_data.clone(), correlation_data.clone())?;
                same("PUBLISH subscription identifiers", e.subscription_identifiers.clone().unwrap_or_default(), subscription_identifiers.clone())?;
                same("PUBLISH content type", e.content_type.clone(), content_type.clone())?;
                same("PUBLISH user properties", ups_of(&e.user_properties), user_properties.clone())?;
            } else if payload_format_indicator.is_some() || message_expiry_interval.is_some() || topic_alias.is_some() || response_topic.is_some() || correlation_data.is_some()
                || !subscription_identifiers.is_empty() || content_type.is_some() || !user_properties.is_empty() {
                return Err("PUBLISH (3.1.1): MQTT 5 properties on the wire".to_string());
            }
            Ok(())
        }
        (MqttPacket::Puback(e), RefPacket::Puback(g)) => ack_eq("PUBACK", e.packet_id, e.reason_code as u8, &e.reason_string, &e.user_properties, g, v5),
        (MqttPacket::Pubrec(e), RefPacket::Pubrec(g)) => ack_eq("PUBREC", e.packet_id, e.reason_code as u8, &e.reason_string, &e.user_properties, g, v5),
        (MqttPacket::Pubrel(e), RefPacket::Pubrel(g)) => ack_eq("PUBREL", e.packet_id, e.reason_code as u8, &e.reason_string, &e.user_properties, g, v5),
        (MqttPacket::Pubcomp(e), RefPacket::Pubcomp(g)) => ack_eq("PUBCOMP", e.packet_id, e.reason_code as u8, &e.reason_string, &e.user_properties, g, v5),
        (MqttPacket::Subscribe(e), RefPacket::Subscribe { packet_id, subscription_identifier, user_properties, subscriptions }) => {
            same("SUBSCRIBE packet id", e.packet_id, *packet_id)?;
            same("SUBSCRIBE subscription count", e.subscriptions.len(), subscriptions.len())?;
            for (i, (es, gs)) in e.subscriptions.iter().zip(subscriptions.iter()).enumerate() {
                same(&format!("SUBSCRIBE #{} topic filter", i), es.topic_filter.clone(), gs.topic_filter.clone())?;
                same(&format!("SUBSCRIBE #{} qos", i), es.qos as u8, gs.qos)?;
                if v5 {
                    same(&format!("SUBSCRIBE #{} no local", i), es.no_local, gs.no_local)?;
                    same(&format!("SUBSCRIBE #{} retain as published", i), es.retain_as_published, gs.retain_as_published)?;
                    same(&format!("SUBSCRIBE #{} retain handling", i), es.retain_handling_type as u8, gs.retain_handling)?;
                }
            }
            if v5 {
                same("SUBSCRIBE subscription identifier", e.subscription_identifier, *subscription_identifier)?;
                same("SUBSCRIBE user properties", ups_of(&e.user_properties), user_properties.clone())?;
            } else if subscription_identifier.is_some() || !user_properties.is_empty() {
                return Err("SUBSCRIBE (3.1.1): MQTT 5 properties on the wire".to_string());
            }
            Ok(())
        }
        (MqttPacket::Unsubscribe(e), RefPacket::Unsubscribe { packet_id, user_properties, topic_filters }) => {
            same("UNSUBSCRIBE packet id", e.packet_id, *packet_id)?;
            same("UNSUBSCRIBE topic filters", e.topic_filters.clone(), topic_filters.clone())?;
            if v5 { same("UNSUBSCRIBE user properties", ups_of(&e.user_properties), user_properties.clone())?; }
            else if !user_properties.is_empty() { return Err("UNSUBSCRIBE (3.1.1): MQTT 5 properties on the wire".to_string()); }
            Ok(())
        }
        (MqttPacket::Pingreq(_), RefPacket::Pingreq) => Ok(()),
        (MqttPacket::Disconnect(e), RefPacket::Disconnect { reason_code, reason_code_on_wire, session_expiry_interval, reason_string, server_reference, user_properties }) => {
            if v5 {
                same("DISCONNECT reason code", e.reason_code as u8, *reason_code)?;
                same("DISCONNECT session expiry interval", e.session_expiry_interval_seconds, *session_expiry_interval)?;
                same("DISCONNECT reason string", e.reason_string.clone(), reason_string.clone())?;
                same("DISCONNECT server reference", e.server_reference.clone(), server_reference.clone())?;
                same("DISCONNECT user properties", ups_of(&e.user_properties), user_properties.clone())?;
            } else if *reason_code_on_wire || session_expiry_interval.is_some() || reason_string.is_some() || server_reference.is_some() || !user_properties.is_empty() {
                return Err("DISCONNECT (3.1.1): MQTT 5 fields on the wire".to_string());
            }
            Ok(())
        }
        (e, g) => Err(format!("packet type mismatch: encoded a {}, wire carries {}", mqtt_packet_name(e), brief(g))),
    }
}

fn mqtt_packet_name(p: &MqttPacket) -> &'static str {
    match p {
        MqttPacket::Connect(_) => "CONNECT", MqttPacket::Connack(_) => "CONNACK", MqttPacket::Publish(_) => "PUBLISH", MqttPacket::Puback(_) => "PUBACK", MqttPacket::Pubrec(_) => "PUBREC",
        MqttPacket::Pubrel(_) => "PUBREL", MqttPacket::Pubcomp(_) => "PUBCOMP", MqttPacket::Subscribe(_) => "SUBSCRIBE", MqttPacket::Suback(_) => "SUBACK", MqttPacket::Unsubscribe(_) => "UNSUBSCRIBE",
        MqttPacket::Unsuback(_) => "UNSUBACK", MqttPacket::Pingreq(_) => "PINGREQ", MqttPacket::Pingresp(_) => "PINGRESP", MqttPacket::Disconnect(_) => "DISCONNECT", MqttPacket::Auth(_) => "AUTH",
    }
}

// ---------------------------------------------------------------------------------------------------------------------
// 4. bounded comparison: crate Encoder output vs the reference decoder
// ---------------------------------------------------------------------------------------------------------------------

fn encode_with(packet: &MqttPacket, version: ProtocolVersion, res: OutboundAliasResolution, caps: &[usize]) -> Result<Vec<u8>, String> {
    let mut enc = Encoder::new();
    enc.reset(packet, &EncodingContext { outbound_alias_resolution: res, protocol_version: version }).map_err(|e| format!("reset: {:?}", e))?;
    let mut out = Vec::new();
    let mut i = 0;
    loop {
        let cap = caps[i % caps.len()]; i += 1;
        let mut buf: Vec<u8> = Vec::with_capacity(cap);
        let r = enc.encode(packet, &mut buf).map_err(|e| format!("encode: {:?}", e))?;
        if buf.len() > cap { return Err("encoder grew the buffer".into()); }
        out.extend_from_slice(&buf);
        if r == EncodeResult::Complete { return Ok(out); }
        if i > 1_000_000 { return Err("encoder never completes".into()); }
    }
}

fn vbi_encode(mut v: u32) -> Vec<u8> {
    let mut out = Vec::new();
    loop { let mut b = (v % 128) as u8; v /= 128; if v > 0 { b |= 0x80; } out.push(b); if v == 0 { return out; } }
}

/// F-SUBID: the crate writes the SUBSCRIBE Subscription Identifier as 0x0B + four byte integer.  If `bytes` is such a
/// packet, returns the same packet with ONLY that property re-encoded as the specification demands (0x0B + VBI) and the
/// two enclosing lengths adjusted; None if the bytes do not have exactly that shape.
fn subid_repair(bytes: &[u8], id: u32) -> Option<Vec<u8>> {
    let mut cur = Cursor::new(bytes, true);
    if cur.u8("").ok()? != 0x82 { return None; }
    let rem = cur.vbi("").ok()? as usize;
    let mut body = cur.sub(rem, "").ok()?;
    if !cur.at_end() { return None; }
    let pid = body.take(2, "").ok()?.to_vec();
    let plen = body.vbi("").ok()? as usize;
    let props = body.take(plen, "").ok()?;
    let rest = body.take(body.remaining(), "").ok()?;
    let mut crate_form = vec![P_SUBSCRIPTION_ID]; crate_form.extend_from_slice(&id.to_be_bytes());
    if !props.starts_with(&crate_form) { return None; }
    let mut new_props = vec![P_SUBSCRIPTION_ID]; new_props.extend(vbi_encode(id)); new_props.extend_from_slice(&props[5..]);
    let mut new_body = pid; new_body.extend(vbi_encode(new_props.len() as u32)); new_body.extend(new_props); new_body.extend_from_slice(rest);
    let mut out = vec![0x82]; out.extend(vbi_encode(new_body.len() as u32)); out.extend(new_body);
    Some(out)
}

fn hex_prefix(b: &[u8]) -> String {
    let n = usize::min(b.len(), 28);
    format!("bytes[{}]={}{}", b.len(), b[..n].iter().map(|x| format!("{:02x}", x)).collect::<Vec<_>>().join(" "), if b.len() > n { " .." } else { "" })
}

/// Encode with the crate, decode with the reference, compare.  Err carries (message, encoded bytes).
fn conformance(p: &MqttPacket, v5: bool, res: OutboundAliasResolution) -> Result<(), (String, Vec<u8>)> {
    let version = if v5 { ProtocolVersion::Mqtt5 } else { ProtocolVersion::Mqtt311 };
    let bytes = encode_with(p, version, res, &[1 << 16]).map_err(|e| (format!("crate encoder failed: {}", e), Vec::new()))?;
    let verdict = (|| {
        let (got, used) = ref_decode(&bytes, v5).map_err(|e| format!("reference decoder rejects: {}", e))?;
        if used != bytes.len() { return Err(format!("reference decoder consumed {} of {} bytes", used, bytes.len())); }
        logical_eq(p, &got, v5, res.alias, res.skip_topic).map_err(|e| format!("decoded packet differs: {}", e))
    })();
    verdict.map_err(|e| (e, bytes))
}

fn crate_validation_verdict(p: &MqttPacket) -> &'static str {
    // validate_packet_outbound runs before packet id assignment and insists on id 0 for PUBLISH/SUBSCRIBE/UNSUBSCRIBE
    let mut q = p.clone();
    match &mut q { MqttPacket::Publish(x) => x.packet_id = 0, MqttPacket::Subscribe(x) => x.packet_id = 0, MqttPacket::Unsubscribe(x) => x.packet_id = 0, _ => {} }
    if validate_packet_outbound(&q).is_ok() { "accepts" } else { "rejects" }
}

#[derive(Default)]
struct Run { cases: u64, fail_kinds: Vec<(String, String, u64)>, known: Vec<String>, known_ids: Vec<u32>, known_count: u64, guarded: u64 }

impl Run {
    fn record_failure(&mut self, p: &MqttPacket, v5: bool, what: &str, err: String, bytes: &[u8]) {
        let ver = if v5 { "MQTT5" } else { "MQTT311" };
        // F-SUBID allow-list: only if re-encoding that one property as a VBI makes the packet fully conformant and equal
        if let (true, MqttPacket::Subscribe(sp)) = (v5, p) {
            if let Some(id) = sp.subscription_identifier {
                if let Some(fixed) = subid_repair(bytes, id) {
                    let ok = ref_decode(&fixed, true).map_err(|e| e).and_then(|(g, used)| if used == fixed.len() { logical_eq(p, &g, true, None, false) } else { Err("length".into()) });
                    if ok.is_ok() {
                        self.known_count += 1;
                        if !self.known_ids.contains(&id) { self.known_ids.push(id); self.known.push(format!("KNOWN F-SUBID {} {}: Subscription Identifier {} encoded as four byte integer instead of Variable Byte Integer (v5 3.8.2.1.2): {}; {}; conformant and equal once only that property is re-encoded as a VBI", what, ver, id, err, hex_prefix(bytes))); }
                        return;
                    }
                }
            }
        }
        let kind: String = format!("{} {} {}", mqtt_packet_name(p), ver, err).chars().map(|c| if c.is_ascii_digit() { '#' } else { c }).take(110).collect();
        if let Some(k) = self.fail_kinds.iter_mut().find(|k| k.0 == kind) { k.2 += 1; return; }
        // stable prefix for the committed known finding (known_findings.json: case_prefix), so that any OTHER disagreement is still an alarm
        let tag = if !v5 && matches!(p, MqttPacket::Connect(_)) && err.contains("Password Flag set while User Name Flag is 0") { "F-311-PASSWORD " } else { "" };
        let desc = format!("{}{} {}: {}; {}; crate validate_packet_outbound {} this packet", tag, what, ver, err, hex_prefix(bytes), crate_validation_verdict(p));
        self.fail_kinds.push((kind, desc, 1));
    }
    /// a packet the client can legitimately be asked to send: the encoder output must be accepted and equal
    fn check(&mut self, p: &MqttPacket, res: OutboundAliasResolution, what: &dyn Fn() -> String) {
        for v5 in [true, false] {
            self.cases += 1;
            if let Err((e, bytes)) = conformance(p, v5, res) { let w = what(); self.record_failure(p, v5, &w, e, &bytes); }
        }
    }
    /// a logically invalid packet: fine if the crate's own outbound validation refuses it; otherwise the encoder output must conform
    fn check_guarded(&mut self, p: &MqttPacket, what: &str) {
        for v5 in [true, false] {
            self.cases += 1;
            if let Err((e, bytes)) = conformance(p, v5, OutboundAliasResolution::default()) {
                if crate_validation_verdict(p) == "rejects" { self.guarded += 1; } else { self.record_failure(p, v5, &format!("(invalid-on-purpose) {}", what), e, &bytes); }
            }
        }
    }
}

const LENS: [usize; 5] = [0, 1, 127, 128, 300];
const TOPIC_LENS: [usize; 4] = [1, 127, 128, 300];
const MASK16: [u32; 16] = [0, 63, 1, 2, 4, 8, 16, 32, 21, 42, 7, 56, 62, 31, 47, 59];
const SUB_IDS: [Option<u32>; 6] = [None, Some(1), Some(127), Some(128), Some(16384), Some(268435455)];

fn s(n: usize) -> String { "a".repeat(n) }
fn opt_s(n: Option<usize>) -> Option<String> { n.map(s) }
/// `count` user properties whose names/values are `len` bytes long and (for len > 0) pairwise distinct, so that order matters
fn ups(count: usize, len: usize) -> Option<Vec<UserProperty>> {
    if count == 0 { return None; }
    let mk = |lead: u8, i: usize| if len == 0 { String::new() } else { format!("{}{}", (lead + i as u8) as char, s(len - 1)) };
    Some((0..count).map(|i| UserProperty::new(mk(b'K', i), mk(b'p', i))).collect())
}
fn qos_of(q: u8) -> QualityOfService { match q { 0 => QualityOfService::AtMostOnce, 1 => QualityOfService::AtLeastOnce, _ => QualityOfService::ExactlyOnce } }
fn rh_of(r: u8) -> RetainHandlingType { match r { 0 => RetainHandlingType::SendOnSubscribe, 1 => RetainHandlingType::SendOnSubscribeIfNew, _ => RetainHandlingType::DontSend } }

#[test]
fn outbound_packets_conform_to_reference_decoder() {
    let mut run = Run::default();
    let none = OutboundAliasResolution::default();
    let mut n: usize = 0;            // running counter used to spread field lengths / values over the family

    // ---- PUBLISH: flags x topic length x payload x optional-property mask x user properties ----
    for qos in 0..3u8 { for retain in [false, true] { for dup in [false, true] { if qos == 0 && dup { continue; }
        for tl in TOPIC_LENS { for pl in [None, Some(0usize), Some(1), Some(127), Some(128), Some(300)] { for mask in 0..64u32 { for uc in [0usize, 1, 3] {
            n += 1;
            let ul = LENS[n % 5];
            let p = PublishPacket { packet_id: if qos == 0 { 0 } else { [1u16, 255, 256, 65535][n % 4] }, topic: s(tl), qos: qos_of(qos), duplicate: dup, retain,
                payload: pl.map(|k| vec![0x5a; k]),
                payload_format: if mask & 1 != 0 { Some(if mask & 32 != 0 { PayloadFormatIndicator::Utf8 } else { PayloadFormatIndicator::Bytes }) } else { None },
                message_expiry_interval_seconds: if mask & 2 != 0 { Some([0u32, 1, 0x1234_5678, u32::MAX][n % 4]) } else { None },
                topic_alias: if n % 5 == 0 { Some(9) } else { None },          // the packet's own field; without a resolution nothing goes on the wire
                response_topic: if mask & 4 != 0 { Some(s(TOPIC_LENS[(n / 3) % 4])) } else { None },
                correlation_data: if mask & 8 != 0 { Some(vec![0xc3; LENS[(n / 7) % 5]]) } else { None },
                subscription_identifiers: None,
                content_type: if mask & 16 != 0 { Some(s(LENS[(n / 11) % 5])) } else { None },
                user_properties: ups(uc, ul) };
            run.check(&MqttPacket::Publish(p), none, &|| format!("PUBLISH qos={} retain={} dup={} topic={} payload={:?} propmask={:#08b} ups={}x{}", qos, retain, dup, tl, pl, mask, uc, ul));
        } } } }
    } } }
    // ---- PUBLISH with outbound topic alias resolutions ----
    for alias in [1u16, 2, 65535] { for skip in [false, true] { for qos in 0..3u8 { for tl in TOPIC_LENS { for pl in [None, Some(1usize), Some(128)] { for mask in [0u32, 31] { for uc in [0usize, 3] {
        n += 1;
        let p = PublishPacket { packet_id: if qos == 0 { 0 } else { 77 }, topic: s(tl), qos: qos_of(qos), payload: pl.map(|k| vec![1; k]), topic_alias: Some(alias),
            payload_format: if mask & 1 != 0 { Some(PayloadFormatIndicator::Utf8) } else { None }, message_expiry_interval_seconds: if mask & 2 != 0 { Some(60) } else { None },
            response_topic: if mask & 4 != 0 { Some(s(128)) } else { None }, correlation_data: if mask & 8 != 0 { Some(vec![7; 127]) } else { None },
            content_type: if mask & 16 != 0 { Some(s(1)) } else { None }, user_properties: ups(uc, LENS[n % 5]), ..Default::default() };
        run.check(&MqttPacket::Publish(p), OutboundAliasResolution { skip_topic: skip, alias: Some(alias) }, &|| format!("PUBLISH alias={} skip_topic={} qos={} topic={} payload={:?} propmask={}", alias, skip, qos, tl, pl, mask));
    } } } } } } }

    // ---- CONNECT ----
    let make_will = |variant: u32, n: usize, qos: u8, retain: bool, tl: usize, pl: Option<usize>, wmask: u32, wuc: usize| -> Option<PublishPacket> {
        if variant == 0 { return None; }
        Some(PublishPacket { topic: s(tl), qos: qos_of(qos), retain, payload: pl.map(|k| vec![0x77; k]),
            payload_format: if wmask & 1 != 0 { Some(if n % 2 == 0 { PayloadFormatIndicator::Utf8 } else { PayloadFormatIndicator::Bytes }) } else { None },
            message_expiry_interval_seconds: if wmask & 2 != 0 { Some([0u32, 3600, u32::MAX][n % 3]) } else { None },
            content_type: if wmask & 4 != 0 { Some(s(LENS[(n / 2) % 5])) } else { None },
            response_topic: if wmask & 8 != 0 { Some(s(TOPIC_LENS[(n / 3) % 4])) } else { None },
            correlation_data: if wmask & 16 != 0 { Some(vec![0xee; LENS[(n / 5) % 5]]) } else { None },
            user_properties: ups(wuc, LENS[(n / 7) % 5]), ..Default::default() })
    };
    let make_connect = |n: usize, clean: bool, cid: Option<usize>, creds: u32, pm: u32, auth: u32, uc: usize, will: Option<PublishPacket>, will_delay: bool| -> ConnectPacket {
        ConnectPacket { keep_alive_interval_seconds: [0u16, 1, 30, 65535][n % 4], clean_start: clean, client_id: opt_s(cid),
            username: if creds & 1 != 0 { Some(s(LENS[(n / 2) % 5])) } else { None }, password: if creds & 2 != 0 { Some(vec![0x70; LENS[(n / 3) % 5]]) } else { None },
            session_expiry_interval_seconds: if pm & 1 != 0 { Some([0u32, 5, u32::MAX][n % 3]) } else { None },
            receive_maximum: if pm & 2 != 0 { Some([1u16, 10, 65535][n % 3]) } else { None },
            maximum_packet_size_bytes: if pm & 4 != 0 { Some([1u32, 100_000, u32::MAX][n % 3]) } else { None },
            topic_alias_maximum: if pm & 8 != 0 { Some([0u16, 16, 65535][n % 3]) } else { None },
            request_response_information: if pm & 16 != 0 { Some(n % 2 == 0) } else { None },
            request_problem_information: if pm & 32 != 0 { Some(n % 3 == 0) } else { None },
            authentication_method: if auth >= 1 { Some(s(LENS[(n / 5) % 5])) } else { None }, authentication_data: if auth >= 2 { Some(vec![0xad; LENS[(n / 7) % 5]]) } else { None },
            will_delay_interval_seconds: if will_delay { Some([0u32, 30, u32::MAX][n % 3]) } else { None }, will, user_properties: ups(uc, LENS[(n / 11) % 5]) }
    };
    // (a) connect-centric: every combination of clean start, client id, credentials, property sample, authentication, user properties x 3 will shapes
    for clean in [false, true] { for cid in [None, Some(0usize), Some(1), Some(127), Some(128), Some(300)] { for creds in 0..4u32 { for willv in 0..3u32 { for pm in MASK16 { for auth in 0..3u32 { for uc in [0usize, 1, 3] {
        n += 1;
        let will = make_will(willv, n, (n % 3) as u8, n % 2 == 0, TOPIC_LENS[n % 4], if willv == 1 { None } else { Some(LENS[n % 5]) }, if willv == 1 { 0 } else { 31 }, if willv == 1 { 0 } else { 3 });
        let c = make_connect(n, clean, cid, creds, pm, auth, uc, will, willv == 2);
        run.check(&MqttPacket::Connect(c), none, &|| format!("CONNECT clean={} client_id={:?} creds(user=1,pass=2)={} will_variant={} propmask={:#08b} auth={} ups={}", clean, cid, creds, willv, pm, auth, uc));
    } } } } } } }
    // (b) will-centric: every will QoS / retain / topic length / payload / will property sample / will user properties
    for wq in 0..3u8 { for wr in [false, true] { for tl in TOPIC_LENS { for pl in [None, Some(0usize), Some(1), Some(127), Some(128), Some(300)] { for wmask in MASK16 { for wuc in [0usize, 1, 3] {
        n += 1;
        let will = make_will(1, n, wq, wr, tl, pl, wmask & 31, wuc);
        let c = make_connect(n, n % 2 == 0, [None, Some(0usize), Some(23)][n % 3], (n % 4) as u32, if n % 2 == 0 { 63 } else { 0 }, 0, [0usize, 1][n % 2], will, wmask & 32 != 0);
        run.check(&MqttPacket::Connect(c), none, &|| format!("CONNECT will qos={} retain={} topic={} payload={:?} willpropmask={:#08b} willups={} creds={}", wq, wr, tl, pl, wmask, wuc, n % 4));
    } } } } } }

    // ---- SUBSCRIBE ----
    for count in 1..=3usize { for fl in TOPIC_LENS { for sid in SUB_IDS { for opt in 0..36u8 { for uc in [0usize, 1, 3] {
        n += 1;
        let ul = LENS[n % 5];
        let subs: Vec<Subscription> = (0..count).map(|i| { let o = (opt + 7 * i as u8) % 36;
            Subscription { topic_filter: s(TOPIC_LENS[(TOPIC_LENS.iter().position(|x| *x == fl).unwrap() + i) % 4]), qos: qos_of(o % 3), no_local: (o / 3) % 2 == 1, retain_as_published: (o / 6) % 2 == 1, retain_handling_type: rh_of(o / 12) } }).collect();
        let p = SubscribePacket { packet_id: [1u16, 256, 65535][n % 3], subscriptions: subs, subscription_identifier: sid, user_properties: ups(uc, ul) };
        run.check(&MqttPacket::Subscribe(p), none, &|| format!("SUBSCRIBE n={} filter={} subid={:?} options#{} ups={}x{}", count, fl, sid, opt, uc, ul));
    } } } } }
    // ---- UNSUBSCRIBE ----
    for count in 1..=3usize { for fl in TOPIC_LENS { for (uc, ul) in [(0usize, 0usize), (1, 0), (1, 1), (1, 127), (1, 128), (1, 300), (3, 0), (3, 1), (3, 127), (3, 128), (3, 300)] {
        let p = UnsubscribePacket { packet_id: [1u16, 256, 65535][(count + fl) % 3], topic_filters: (0..count).map(|i| s(TOPIC_LENS[(TOPIC_LENS.iter().position(|x| *x == fl).unwrap() + i) % 4])).collect(), user_properties: ups(uc, ul) };
        run.check(&MqttPacket::Unsubscribe(p), none, &|| format!("UNSUBSCRIBE n={} filter={} ups={}x{}", count, fl, uc, ul));
    } } }

    // ---- PUBACK / PUBREC / PUBREL / PUBCOMP: every reason code of the crate's enums ----
    let ups_variants = [(0usize, 0usize), (1, 0), (1, 1), (1, 127), (1, 128), (1, 300), (3, 0), (3, 1), (3, 127), (3, 128), (3, 300)];
    for code in 0..=255u8 { for rs in [None, Some(0usize), Some(1), Some(127), Some(128), Some(300)] { for (uc, ul) in ups_variants { for pid in [1u16, 256, 65535] {
        if let Ok(rc) = PubackReasonCode::try_from(code) { run.check(&MqttPacket::Puback(PubackPacket { packet_id: pid, reason_code: rc, reason_string: opt_s(rs), user_properties: ups(uc, ul) }), none, &|| format!("PUBACK rc={} reason_string={:?} ups={}x{} id={}", code, rs, uc, ul, pid)); }
        if let Ok(rc) = PubrecReasonCode::try_from(code) { run.check(&MqttPacket::Pubrec(PubrecPacket { packet_id: pid, reason_code: rc, reason_string: opt_s(rs), user_properties: ups(uc, ul) }), none, &|| format!("PUBREC rc={} reason_string={:?} ups={}x{} id={}", code, rs, uc, ul, pid)); }
        if let Ok(rc) = PubrelReasonCode::try_from(code) { run.check(&MqttPacket::Pubrel(PubrelPacket { packet_id: pid, reason_code: rc, reason_string: opt_s(rs), user_properties: ups(uc, ul) }), none, &|| format!("PUBREL rc={} reason_string={:?} ups={}x{} id={}", code, rs, uc, ul, pid)); }
        if let Ok(rc) = PubcompReasonCode::try_from(code) { run.check(&MqttPacket::Pubcomp(PubcompPacket { packet_id: pid, reason_code: rc, reason_string: opt_s(rs), user_properties: ups(uc, ul) }), none, &|| format!("PUBCOMP rc={} reason_string={:?} ups={}x{} id={}", code, rs, uc, ul, pid)); }
    } } } }
    // ---- DISCONNECT: every reason code of the crate's enum ----
    for code in 0..=255u8 { if let Ok(rc) = DisconnectReasonCode::try_from(code) {
        for sei in [None, Some(0u32), Some(u32::MAX)] { for rs in [None, Some(0usize), Some(1), Some(127), Some(128), Some(300)] { for sr in [None, Some(1usize), Some(300)] { for uc in [0usize, 1, 3] {
            n += 1;
            let ul = LENS[n % 5];
            let p = DisconnectPacket { reason_code: rc, session_expiry_interval_seconds: sei, reason_string: opt_s(rs), user_properties: ups(uc, ul), server_reference: opt_s(sr) };
            run.check(&MqttPacket::Disconnect(p), none, &|| format!("DISCONNECT rc={} session_expiry={:?} reason_string={:?} server_reference={:?} ups={}x{}", code, sei, rs, sr, uc, ul));
        } } } }
    } }
    // ---- PINGREQ ----
    run.check(&MqttPacket::Pingreq(PingreqPacket {}), none, &|| "PINGREQ".to_string());

    // ---- multi-byte UTF-8: length prefixes count bytes, not characters ----
    let uni = "cl\u{e9}/\u{4e16}\u{754c}/\u{1F980}".to_string();
    let uups = Some(vec![UserProperty::new(uni.clone(), "v\u{e4}rde\u{2713}".to_string()), UserProperty::new("\u{3b1}".to_string(), String::new())]);
    run.check(&MqttPacket::Publish(PublishPacket { packet_id: 5, topic: uni.clone(), qos: QualityOfService::AtLeastOnce, payload: Some("\u{e9}".as_bytes().to_vec()), response_topic: Some(uni.clone()), content_type: Some(uni.clone()), user_properties: uups.clone(), ..Default::default() }), none, &|| "PUBLISH multi-byte UTF-8".to_string());
    run.check(&MqttPacket::Connect(ConnectPacket { client_id: Some(uni.clone()), username: Some(uni.clone()), password: Some(vec![0, 0xff]), user_properties: uups.clone(),
        will: Some(PublishPacket { topic: uni.clone(), content_type: Some(uni.clone()), user_properties: uups.clone(), ..Default::default() }), ..Default::default() }), none, &|| "CONNECT multi-byte UTF-8".to_string());
    run.check(&MqttPacket::Subscribe(SubscribePacket { packet_id: 3, subscriptions: vec![Subscription { topic_filter: format!("{}/+/#", uni), ..Default::default() }, Subscription { topic_filter: "$share/g/a/+".to_string(), qos: QualityOfService::ExactlyOnce, ..Default::default() }], subscription_identifier: None, user_properties: uups.clone() }), none, &|| "SUBSCRIBE multi-byte UTF-8 + wildcards + shared".to_string());
    run.check(&MqttPacket::Unsubscribe(UnsubscribePacket { packet_id: 3, topic_filters: vec![format!("{}/#", uni), "+".to_string()], user_properties: uups.clone() }), none, &|| "UNSUBSCRIBE multi-byte UTF-8".to_string());
    run.check(&MqttPacket::Disconnect(DisconnectPacket { reason_string: Some(uni.clone()), user_properties: uups.clone(), ..Default::default() }), none, &|| "DISCONNECT multi-byte UTF-8".to_string());

    // ---- logically invalid packets: acceptable only because the crate's own validate_packet_outbound refuses them ----
    let base_pub = PublishPacket { topic: "t".to_string(), payload: Some(vec![1]), ..Default::default() };
    run.check_guarded(&MqttPacket::Publish(PublishPacket { duplicate: true, ..base_pub.clone() }), "PUBLISH QoS 0 with DUP");
    run.check_guarded(&MqttPacket::Publish(PublishPacket { subscription_identifiers: Some(vec![1, 200]), ..base_pub.clone() }), "PUBLISH from client with subscription identifiers");
    run.check_guarded(&MqttPacket::Publish(PublishPacket { topic: String::new(), ..base_pub.clone() }), "PUBLISH with empty topic and no alias");
    run.check_guarded(&MqttPacket::Publish(PublishPacket { topic: "a/#".to_string(), ..base_pub.clone() }), "PUBLISH with wildcard in topic");
    run.check_guarded(&MqttPacket::Publish(PublishPacket { response_topic: Some("a/+".to_string()), ..base_pub.clone() }), "PUBLISH with wildcard in response topic");
    run.check_guarded(&MqttPacket::Subscribe(SubscribePacket::default()), "SUBSCRIBE without subscriptions");
    run.check_guarded(&MqttPacket::Subscribe(SubscribePacket { subscriptions: vec![Subscription { topic_filter: "a".to_string(), ..Default::default() }], subscription_identifier: Some(0), ..Default::default() }), "SUBSCRIBE with subscription identifier 0");
    run.check_guarded(&MqttPacket::Unsubscribe(UnsubscribePacket::default()), "UNSUBSCRIBE without topic filters");
    run.check_guarded(&MqttPacket::Connect(ConnectPacket { receive_maximum: Some(0), ..Default::default() }), "CONNECT receive maximum 0");
    run.check_guarded(&MqttPacket::Connect(ConnectPacket { maximum_packet_size_bytes: Some(0), ..Default::default() }), "CONNECT maximum packet size 0");
    run.check_guarded(&MqttPacket::Connect(ConnectPacket { authentication_data: Some(vec![1]), ..Default::default() }), "CONNECT authentication data without method");

    println!("BOUNDED outbound_packets_conform_to_reference_decoder cases={} bound=crate Encoder output vs independent spec decoder + field-by-field comparison, MQTT5 and MQTT311: PUBLISH (3 QoS x retain x dup x topic {{1,127,128,300}} x payload {{none,0,1,127,128,300}} x 64 property masks x {{0,1,3}} user properties; alias {{1,2,65535}} x skip_topic), CONNECT (clean x client id {{none,0,1,127,128,300}} x user/password x 16 property masks x auth x will none/bare/full; will QoS x retain x topic x payload x 16 will-property masks), SUBSCRIBE (1..3 filters x 36 option bytes x subscription id {{none,1,127,128,16384,268435455}}), UNSUBSCRIBE (1..3), all PUBACK/PUBREC/PUBREL/PUBCOMP/DISCONNECT reason codes x reason string {{none,0,1,127,128,300}} x user properties, PINGREQ, multi-byte UTF-8, 11 invalid-on-purpose packets (their {} non-conformant encodings are all refused by the crate's validate_packet_outbound)", run.cases, run.guarded);
    for (i, k) in run.known.iter().enumerate() {
        let more = if i + 1 == run.known.len() && run.known_count as usize > run.known.len() { format!(" (+{} more KNOWN F-SUBID cases not shown, {} in total)", run.known_count as usize - run.known.len(), run.known_count) } else { String::new() };
        println!("BOUNDED-KNOWN outbound_packets_conform_to_reference_decoder {}{}", k, more);
    }
    for (_, desc, count) in run.fail_kinds.iter().take(25) { println!("BOUNDED-FAIL outbound_packets_conform_to_reference_decoder {} [{} case(s) fail this way]", desc, count); }
    assert!(run.fail_kinds.is_empty(), "{} kind(s) of disagreement between the crate encoder and the reference decoder", run.fail_kinds.len());
}

// ---------------------------------------------------------------------------------------------------------------------
// 5. the oracle checks itself: hand-assembled byte vectors (from the specifications' layouts) it must accept / reject
// ---------------------------------------------------------------------------------------------------------------------

#[test]
fn reference_decoder_self_check() {
    let accept: &[(&str, bool, &[u8])] = &[
        ("v5 CONNECT minimal", true, &[0x10, 0x0d, 0, 4, b'M', b'Q', b'T', b'T', 5, 0x02, 0, 60, 0, 0, 0]),
        ("v3 CONNECT minimal", false, &[0x10, 0x0c, 0, 4, b'M', b'Q', b'T', b'T', 4, 0x02, 0, 60, 0, 0]),
        ("v3 CONNECT user+password", false, &[0x10, 0x12, 0, 4, b'M', b'Q', b'T', b'T', 4, 0xc2, 0, 60, 0, 0, 0, 1, b'u', 0, 1, b'p']),
        ("v5 CONNECT password only", true, &[0x10, 0x10, 0, 4, b'M', b'Q', b'T', b'T', 5, 0x42, 0, 60, 0, 0, 0, 0, 1, b'p']),
        ("v5 CONNECT will + will delay", true, &[0x10, 0x19, 0, 4, b'M', b'Q', b'T', b'T', 5, 0x2e, 0, 60, 0, 0, 0, 5, 0x18, 0, 0, 0, 9, 0, 1, b'w', 0, 1, b'x']),
        ("v5 SUBSCRIBE subscription identifier 128 as VBI", true, &[0x82, 0x0a, 0, 1, 3, 0x0b, 0x80, 0x01, 0, 1, b'a', 0x2d]),
        ("v3 SUBSCRIBE", false, &[0x82, 0x06, 0, 1, 0, 1, b'a', 2]),
        ("v5 UNSUBSCRIBE", true, &[0xa2, 0x06, 0, 1, 0, 0, 1, b'a']),
        ("v5 PUBACK rl2", true, &[0x40, 2, 0, 1]), ("v5 PUBACK rl3", true, &[0x40, 3, 0, 1, 0x10]), ("v5 PUBACK rl4", true, &[0x40, 4, 0, 1, 0, 0]),
        ("v5 PUBACK reason string", true, &[0x40, 8, 0, 1, 0x80, 4, 0x1f, 0, 1, b'r']),
        ("v5 PUBREL", true, &[0x62, 2, 0, 1]), ("v3 PUBCOMP", false, &[0x70, 2, 0, 1]),
        ("PINGREQ", true, &[0xc0, 0]), ("v3 DISCONNECT", false, &[0xe0, 0]), ("v5 DISCONNECT rl0", true, &[0xe0, 0]), ("v5 DISCONNECT rl1", true, &[0xe0, 1, 4]), ("v5 DISCONNECT rl2", true, &[0xe0, 2, 0, 0]),
        ("v5 DISCONNECT session expiry", true, &[0xe0, 7, 0, 5, 0x11, 0, 0, 0, 1]),
        ("v5 PUBLISH qos1", true, &[0x32, 7, 0, 1, b'a', 0, 10, 0, b'x']),
        ("v5 PUBLISH alias only", true, &[0x30, 6, 0, 0, 3, 0x23, 0, 1]),
        ("v3 PUBLISH qos0 retained dup-free", false, &[0x31, 4, 0, 1, b'a', b'x']),
        ("v3 non-minimal Remaining Length is tolerated by 3.1.1", false, &[0xc0, 0x80, 0x00]),
    ];
    for (what, v5, bytes) in accept {
        match ref_decode(bytes, *v5) { Ok((_, used)) => assert_eq!(used, bytes.len(), "{}", what), Err(e) => panic!("{}: must be accepted, got {}", what, e) }
    }
    if let Ok((RefPacket::Subscribe { subscription_identifier, subscriptions, .. }, _)) = ref_decode(accept[5].2, true) {
        assert_eq!(subscription_identifier, Some(128));
        assert_eq!(subscriptions[0], RefSubscription { topic_filter: "a".into(), qos: 1, no_local: true, retain_as_published: true, retain_handling: 2 });
    } else { panic!("subscribe shape"); }
    if let Ok((RefPacket::Connect { will: Some(w), clean_start, .. }, _)) = ref_decode(accept[4].2, true) {
        assert!(clean_start); assert_eq!((w.qos, w.retain, w.will_delay_interval, w.topic.as_str(), w.payload.as_slice()), (1, true, Some(9), "w", &b"x"[..]));
    } else { panic!("connect shape"); }

    let reject: &[(&str, bool, &[u8])] = &[
        ("empty input", true, &[]),
        ("SUBSCRIBE flags 0000", true, &[0x80, 0x06, 0, 1, 0, 0, 1, b'a']),
        ("UNSUBSCRIBE flags 0000", true, &[0xa0, 0x06, 0, 1, 0, 0, 1, b'a']),
        ("PUBREL flags 0000", true, &[0x60, 2, 0, 1]), ("PUBACK flags 0010", true, &[0x42, 2, 0, 1]), ("PINGREQ flags", true, &[0xc1, 0]), ("DISCONNECT flags", true, &[0xe1, 0]), ("CONNECT flags", true, &[0x11, 0x0d, 0, 4, b'M', b'Q', b'T', b'T', 5, 2, 0, 60, 0, 0, 0]),
        ("PUBLISH QoS 3", true, &[0x36, 7, 0, 1, b'a', 0, 10, 0, b'x']), ("PUBLISH DUP with QoS 0", true, &[0x38, 4, 0, 1, b'a', 0]),
        ("PUBLISH packet id 0", true, &[0x32, 6, 0, 1, b'a', 0, 0, 0]), ("PUBLISH wildcard topic", false, &[0x30, 3, 0, 1, b'#']),
        ("PUBLISH empty topic without alias", true, &[0x30, 3, 0, 0, 0]), ("v3 PUBLISH empty topic", false, &[0x30, 2, 0, 0]),
        ("PUBLISH topic ill-formed UTF-8", true, &[0x30, 5, 0, 2, 0xc3, 0x28, 0]), ("PUBLISH topic with U+0000", true, &[0x30, 5, 0, 2, b'a', 0, 0]), ("PUBLISH topic surrogate", true, &[0x30, 6, 0, 3, 0xed, 0xa0, 0x80, 0]),
        ("PUBLISH duplicate Payload Format Indicator", true, &[0x30, 8, 0, 1, b'a', 4, 1, 0, 1, 0]),
        ("PUBLISH Session Expiry not allowed", true, &[0x30, 9, 0, 1, b'a', 5, 0x11, 0, 0, 0, 1]),
        ("PUBLISH Subscription Identifier from client", true, &[0x30, 6, 0, 1, b'a', 2, 0x0b, 1]),
        ("PUBLISH unknown property", true, &[0x30, 6, 0, 1, b'a', 2, 0x7f, 1]),
        ("PUBLISH property length beyond packet", true, &[0x30, 6, 0, 1, b'a', 5, 1, 0]),
        ("PUBLISH property truncated by section", true, &[0x30, 7, 0, 1, b'a', 2, 2, 0, 0]),
        ("PUBLISH topic alias 0", true, &[0x30, 7, 0, 1, b'a', 3, 0x23, 0, 0]), ("PUBLISH payload format 2", true, &[0x30, 6, 0, 1, b'a', 2, 1, 2]),
        ("Remaining Length beyond input", true, &[0x40, 3, 0, 1]), ("Remaining Length 5 bytes", true, &[0x30, 0x80, 0x80, 0x80, 0x80, 0x01]), ("v5 non-minimal Remaining Length", true, &[0xc0, 0x80, 0x00]),
        ("v3 PUBACK with reason code", false, &[0x40, 3, 0, 1, 0]), ("PUBACK packet id 0", true, &[0x40, 2, 0, 0]), ("PUBACK rl1", true, &[0x40, 1, 0]),
        ("PUBACK undefined reason code", true, &[0x40, 3, 0, 1, 0x92]), ("PUBREL undefined reason code", true, &[0x62, 3, 0, 1, 0x10]),
        ("PUBACK Server Reference not allowed", true, &[0x40, 8, 0, 1, 0, 4, 0x1c, 0, 1, b'r']), ("PUBACK two reason strings", true, &[0x40, 12, 0, 1, 0, 8, 0x1f, 0, 1, b'r', 0x1f, 0, 1, b'r']),
        ("PUBACK trailing byte after properties", true, &[0x40, 5, 0, 1, 0, 0, 0]),
        ("SUBSCRIBE subscription identifier as four byte integer (F-SUBID)", true, &[0x82, 0x0c, 0, 1, 5, 0x0b, 0, 0, 0, 1, 0, 1, b'a', 1]),
        ("SUBSCRIBE subscription identifier 0", true, &[0x82, 0x09, 0, 1, 2, 0x0b, 0, 0, 1, b'a', 1]), ("SUBSCRIBE two subscription identifiers", true, &[0x82, 0x0b, 0, 1, 4, 0x0b, 1, 0x0b, 2, 0, 1, b'a', 1]),
        ("SUBSCRIBE reserved option bits", true, &[0x82, 7, 0, 1, 0, 0, 1, b'a', 0x41]), ("SUBSCRIBE retain handling 3", true, &[0x82, 7, 0, 1, 0, 0, 1, b'a', 0x30]), ("SUBSCRIBE QoS 3", true, &[0x82, 7, 0, 1, 0, 0, 1, b'a', 3]),
        ("v3 SUBSCRIBE upper option bits", false, &[0x82, 6, 0, 1, 0, 1, b'a', 4]), ("SUBSCRIBE no payload", true, &[0x82, 3, 0, 1, 0]), ("v3 SUBSCRIBE no payload", false, &[0x82, 2, 0, 1]),
        ("SUBSCRIBE missing options byte", true, &[0x82, 6, 0, 1, 0, 0, 1, b'a']), ("SUBSCRIBE packet id 0", true, &[0x82, 7, 0, 0, 0, 0, 1, b'a', 0]), ("SUBSCRIBE empty filter", true, &[0x82, 6, 0, 1, 0, 0, 0, 0]),
        ("SUBSCRIBE bad wildcard", true, &[0x82, 9, 0, 1, 0, 0, 3, b'a', b'#', b'b', 0]), ("SUBSCRIBE no local on shared", true, &[0x82, 0x10, 0, 1, 0, 0, 10, b'$', b's', b'h', b'a', b'r', b'e', b'/', b'g', b'/', b'a', 4]),
        ("UNSUBSCRIBE no payload", true, &[0xa2, 3, 0, 1, 0]), ("UNSUBSCRIBE Reason String not allowed", true, &[0xa2, 0x0a, 0, 1, 4, 0x1f, 0, 1, b'r', 0, 1, b'a']),
        ("PINGREQ with body", true, &[0xc0, 1, 0]), ("v3 DISCONNECT with reason", false, &[0xe0, 1, 0]), ("DISCONNECT undefined reason code", true, &[0xe0, 1, 1]), ("DISCONNECT Will Delay not allowed", true, &[0xe0, 7, 0, 5, 0x18, 0, 0, 0, 1]),
        ("CONNACK is server-to-client", true, &[0x20, 3, 0, 0, 0]), ("SUBACK is server-to-client", true, &[0x90, 4, 0, 1, 0, 0]), ("type 0 reserved", true, &[0x00, 0]), ("AUTH unsupported", true, &[0xf0, 0]), ("v3 type 15 reserved", false, &[0xf0, 0]),
        ("CONNECT reserved flag bit", true, &[0x10, 0x0d, 0, 4, b'M', b'Q', b'T', b'T', 5, 0x03, 0, 60, 0, 0, 0]),
        ("CONNECT will QoS without will flag", true, &[0x10, 0x0d, 0, 4, b'M', b'Q', b'T', b'T', 5, 0x0a, 0, 60, 0, 0, 0]),
        ("CONNECT will retain without will flag", true, &[0x10, 0x0d, 0, 4, b'M', b'Q', b'T', b'T', 5, 0x22, 0, 60, 0, 0, 0]),
        ("CONNECT will QoS 3", true, &[0x10, 0x14, 0, 4, b'M', b'Q', b'T', b'T', 5, 0x1e, 0, 60, 0, 0, 0, 0, 0, 1, b'w', 0, 1, b'x']),
        ("CONNECT level 4 on a v5 connection", true, &[0x10, 0x0c, 0, 4, b'M', b'Q', b'T', b'T', 4, 0x02, 0, 60, 0, 0]),
        ("CONNECT level 5 on a v3 connection", false, &[0x10, 0x0d, 0, 4, b'M', b'Q', b'T', b'T', 5, 0x02, 0, 60, 0, 0, 0]),
        ("CONNECT protocol name", true, &[0x10, 0x0d, 0, 4, b'M', b'Q', b'T', b'X', 5, 0x02, 0, 60, 0, 0, 0]),
        ("v3 CONNECT password without user name", false, &[0x10, 0x0f, 0, 4, b'M', b'Q', b'T', b'T', 4, 0x42, 0, 60, 0, 0, 0, 1, b'p']),
        ("CONNECT user name flag without user name", true, &[0x10, 0x0d, 0, 4, b'M', b'Q', b'T', b'T', 5, 0x82, 0, 60, 0, 0, 0]),
        ("CONNECT trailing bytes (password without flag)", true, &[0x10, 0x10, 0, 4, b'M', b'Q', b'T', b'T', 5, 0x02, 0, 60, 0, 0, 0, 0, 1, b'p']),
        ("CONNECT will flag but will properties missing", true, &[0x10, 0x13, 0, 4, b'M', b'Q', b'T', b'T', 5, 0x06, 0, 60, 0, 0, 0, 0, 1, b'w', 0, 1]),
        ("CONNECT Will Delay in CONNECT properties", true, &[0x10, 0x12, 0, 4, b'M', b'Q', b'T', b'T', 5, 0x02, 0, 60, 5, 0x18, 0, 0, 0, 1, 0, 0]),
        ("CONNECT Receive Maximum in will properties", true, &[0x10, 0x17, 0, 4, b'M', b'Q', b'T', b'T', 5, 0x06, 0, 60, 0, 0, 0, 3, 0x21, 0, 1, 0, 1, b'w', 0, 0]),
        ("CONNECT receive maximum 0", true, &[0x10, 0x10, 0, 4, b'M', b'Q', b'T', b'T', 5, 0x02, 0, 60, 3, 0x21, 0, 0, 0, 0]),
        ("CONNECT request problem information 2", true, &[0x10, 0x0f, 0, 4, b'M', b'Q', b'T', b'T', 5, 0x02, 0, 60, 2, 0x17, 2, 0, 0]),
        ("CONNECT authentication data without method", true, &[0x10, 0x11, 0, 4, b'M', b'Q', b'T', b'T', 5, 0x02, 0, 60, 4, 0x16, 0, 1, 9, 0, 0]),
        ("CONNECT client id string overruns packet", true, &[0x10, 0x0d, 0, 4, b'M', b'Q', b'T', b'T', 5, 0x02, 0, 60, 0, 0, 5]),
    ];
    for (what, v5, bytes) in reject {
        if let Ok((p, _)) = ref_decode(bytes, *v5) { panic!("{}: must be rejected, decoded as {:?}", what, p); }
    }
    // every strict prefix of a valid packet is incomplete and must be rejected
    for (what, v5, bytes) in accept { for cut in 0..bytes.len() { assert!(ref_decode(&bytes[..cut], *v5).is_err(), "{} cut at {}", what, cut); } }
    // trailing bytes after the packet are left alone
    let mut two = vec![0xc0u8, 0]; two.extend_from_slice(&[0x40, 2, 0, 1]);
    assert_eq!(ref_decode(&two, true).map(|(p, n)| (p, n)), Ok((RefPacket::Pingreq, 2)));
}

/// logical_eq is not vacuous: the bytes of packet A never compare equal to a packet B that differs in one field.
#[test]
fn reference_comparison_is_sensitive() {
    let none = OutboundAliasResolution::default();
    let two = Some(vec![UserProperty::new("a".into(), "1".into()), UserProperty::new("b".into(), "2".into())]);
    let swapped = Some(vec![UserProperty::new("b".into(), "2".into()), UserProperty::new("a".into(), "1".into())]);
    let publish = PublishPacket { packet_id: 4, topic: "t".into(), qos: QualityOfService::AtLeastOnce, payload: Some(vec![1]), message_expiry_interval_seconds: Some(5), user_properties: two.clone(), ..Default::default() };
    let connect = ConnectPacket { keep_alive_interval_seconds: 10, client_id: Some("c".into()), username: Some("u".into()), will: Some(PublishPacket { topic: "w".into(), ..Default::default() }), will_delay_interval_seconds: Some(3), ..Default::default() };
    let subscribe = SubscribePacket { packet_id: 2, subscriptions: vec![Subscription { topic_filter: "a".into(), qos: QualityOfService::AtLeastOnce, ..Default::default() }], ..Default::default() };
    let pairs: Vec<(MqttPacket, MqttPacket, bool)> = vec![
        (MqttPacket::Publish(publish.clone()), MqttPacket::Publish(PublishPacket { retain: true, ..publish.clone() }), false),
        (MqttPacket::Publish(publish.clone()), MqttPacket::Publish(PublishPacket { packet_id: 5, ..publish.clone() }), false),
        (MqttPacket::Publish(publish.clone()), MqttPacket::Publish(PublishPacket { payload: Some(vec![2]), ..publish.clone() }), false),
        (MqttPacket::Publish(publish.clone()), MqttPacket::Publish(PublishPacket { user_properties: swapped.clone(), ..publish.clone() }), true),
        (MqttPacket::Publish(publish.clone()), MqttPacket::Publish(PublishPacket { message_expiry_interval_seconds: None, ..publish.clone() }), true),
        (MqttPacket::Connect(connect.clone()), MqttPacket::Connect(ConnectPacket { keep_alive_interval_seconds: 11, ..connect.clone() }), false),
        (MqttPacket::Connect(connect.clone()), MqttPacket::Connect(ConnectPacket { username: None, ..connect.clone() }), false),
        (MqttPacket::Connect(connect.clone()), MqttPacket::Connect(ConnectPacket { will_delay_interval_seconds: Some(4), ..connect.clone() }), true),
        (MqttPacket::Subscribe(subscribe.clone()), MqttPacket::Subscribe(SubscribePacket { subscriptions: vec![Subscription { topic_filter: "a".into(), qos: QualityOfService::ExactlyOnce, ..Default::default() }], ..subscribe.clone() }), false),
        (MqttPacket::Subscribe(subscribe.clone()), MqttPacket::Subscribe(SubscribePacket { subscriptions: vec![Subscription { topic_filter: "a".into(), qos: QualityOfService::AtLeastOnce, no_local: true, ..Default::default() }], ..subscribe.clone() }), true),
        (MqttPacket::Puback(PubackPacket { packet_id: 1, ..Default::default() }), MqttPacket::Puback(PubackPacket { packet_id: 1, reason_code: PubackReasonCode::NotAuthorized, ..Default::default() }), true),
        (MqttPacket::Puback(PubackPacket { packet_id: 1, ..Default::default() }), MqttPacket::Pubrec(PubrecPacket { packet_id: 1, ..Default::default() }), false),
        (MqttPacket::Disconnect(DisconnectPacket::default()), MqttPacket::Disconnect(DisconnectPacket { reason_string: Some("x".into()), ..Default::default() }), true),
    ];
    for (i, (a, b, v5_only)) in pairs.iter().enumerate() { for v5 in [true, false] {
        let bytes = encode_with(a, if v5 { ProtocolVersion::Mqtt5 } else { ProtocolVersion::Mqtt311 }, none, &[4096]).unwrap();
        let (got, _) = ref_decode(&bytes, v5).unwrap();
        assert!(logical_eq(a, &got, v5, None, false).is_ok(), "pair {} v5={}: packet differs from itself", i, v5);
        let differs = logical_eq(b, &got, v5, None, false).is_err();
        // a difference in an MQTT 5-only field is invisible on a 3.1.1 connection, by design
        assert_eq!(differs, v5 || !*v5_only, "pair {} v5={}", i, v5);
    } }
    // alias rules
    let bytes = encode_with(&MqttPacket::Publish(publish.clone()), ProtocolVersion::Mqtt5, OutboundAliasResolution { skip_topic: true, alias: Some(7) }, &[4096]).unwrap();
    let (got, _) = ref_decode(&bytes, true).unwrap();
    assert!(logical_eq(&MqttPacket::Publish(publish.clone()), &got, true, Some(7), true).is_ok());
    assert!(logical_eq(&MqttPacket::Publish(publish.clone()), &got, true, Some(8), true).is_err());
    assert!(logical_eq(&MqttPacket::Publish(publish.clone()), &got, true, Some(7), false).is_err());
    assert!(logical_eq(&MqttPacket::Publish(publish.clone()), &got, true, None, false).is_err());
}
