// E-B (bounded): C14 over whole histories - "pings in time ... live peers never timed out": with a negotiated keep-alive of K seconds the client
// never lets more than K seconds pass without transmitting, whatever the broker sends it meanwhile, and a broker that answers every PINGREQ
// at once is never declared dead. The proved ingredients (service_keep_alive, the handlers' frame clauses) are per call; this runs the real
// engine over a time line. Stand-in with a stated bound; never counted as proved.
use super::harness::*;
use crate::mqtt::*;
use crate::protocol::*;
use crate::client::config::*;
use std::time::Duration;

/// history: CONNACK at 0; the broker delivers a QoS 0 PUBLISH at each time in `inbound_ms`; a user QoS 1 publish is submitted at each time in `user_ms`;
/// the driver services only at reported times (and after each event), completes writes at once, and the broker answers PINGREQ / acks immediately.
fn run(k: u16, mode: ProtocolMode, inbound_ms: &[u64], user_ms: &[u64], horizon_ms: u64) -> Result<(), String> {
    let cfg = Cfg { policy: OfflineQueuePolicy::PreserveAll, drain: PostReconnectQueueDrainPolicy::None, mode, retries: None, keep_alive: Some(k), ack_timeout: None };
    let mut h = H::new(cfg);
    h.connect(false, None).map_err(|e| format!("connect: {}", err_name(&e)))?;
    let t0 = h.now;
    let at = |h: &H| (h.now - t0).as_millis() as u64;
    let mut transmissions: Vec<u64> = vec![0];          // the CONNECT/CONNACK exchange is time 0
    let mut acked = h.sent_this_connection.len();
    let mut sent_seen = h.sent.len();
    let mut inbound: Vec<u64> = inbound_ms.to_vec(); inbound.reverse();
    let mut user: Vec<u64> = user_ms.to_vec(); user.reverse();
    let mut steps = 0;
    loop {
        steps += 1; if steps > 5000 { return Err("driver did not reach the horizon in 5000 steps (spinning)".into()); }
        // immediate events
        if h.ps.pending_write_completion { h.write_completion().map_err(|e| format!("write completion at {} ms: {}", at(&h), err_name(&e)))?; continue; }
        if acked < h.sent_this_connection.len() {
            let p = h.sent_this_connection[acked].clone(); acked += 1;
            if let Some(reply) = h.broker_reply(&p) { h.deliver(reply, 1 << 20).map_err(|e| format!("broker reply at {} ms: {}", at(&h), err_name(&e)))?; }
            continue;
        }
        let now = h.now;
        let next_service = h.ps.get_next_service_timepoint(&now).map(|t| if t > now { (t - t0).as_millis() as u64 } else { at(&h) });
        let next_in = inbound.last().copied();
        let next_user = user.last().copied();
        let mut next = horizon_ms;
        for c in [next_service, next_in, next_user].iter().flatten() { if *c < next { next = *c; } }
        if next >= horizon_ms { break; }
        if next > at(&h) { h.now = t0 + Duration::from_millis(next); }
        if next_in == Some(next) {
            inbound.pop();
            let p = PublishPacket { topic: "in/bound".to_string(), qos: QualityOfService::AtMostOnce, payload: Some(vec![1, 2, 3]), ..Default::default() };
            h.deliver(MqttPacket::Publish(p), 1 << 20).map_err(|e| format!("inbound publish at {} ms: {}", next, err_name(&e)))?;
            continue;
        }
        if next_user == Some(next) { user.pop(); h.submit(Kind::Pub1); continue; }
        h.service(4096).map_err(|e| format!("service at {} ms: {} (a live broker was declared dead?)", next, err_name(&e)))?;
        if h.sent.len() > sent_seen { sent_seen = h.sent.len(); transmissions.push(at(&h)); }
        if h.ps.state != ProtocolStateType::Connected { return Err(format!("left the Connected state at {} ms although the broker answers at once", at(&h))); }
    }
    transmissions.push(horizon_ms);
    for w in transmissions.windows(2) {
        if w[1] - w[0] > k as u64 * 1000 {
            return Err(format!("keep alive {} s violated: nothing sent by the client between {} ms and {} ms (transmissions at {:?})", k, w[0], w[1], &transmissions[..transmissions.len() - 1]));
        }
    }
    Ok(())
}

#[test]
fn keep_alive_holds_whatever_the_broker_sends() {
    let thorough = super::tier_thorough();
    let mut cases = 0u64;
    let mut fails: Vec<String> = Vec::new();
    let ks: &[u16] = if thorough { &[1, 5, 20, 60] } else { &[5, 20] };
    for &k in ks { for mode in [ProtocolMode::Mqtt5, ProtocolMode::Mqtt311] {
        let kms = k as u64 * 1000;
        let horizon = 5 * kms;
        let every = |d: u64| -> Vec<u64> { let mut v = Vec::new(); let mut t = d; while t < horizon { v.push(t); t += d; } v };
        let inbound_sets: Vec<Vec<u64>> = vec![vec![], vec![kms * 3 / 4], every(kms * 3 / 5), every(kms / 4), vec![kms - 1, kms, kms + 1], every(kms)];
        let user_sets: Vec<Vec<u64>> = vec![vec![], vec![kms / 2], vec![kms * 3 / 2, kms * 2]];
        for inbound in &inbound_sets { for user in &user_sets {
            cases += 1;
            if let Err(e) = run(k, mode, inbound, user, horizon) {
                if fails.len() < 20 { fails.push(format!("K={} mode={:?} inbound QoS0 publishes at {:?} ms, user publishes at {:?} ms :: {}", k, mode, &inbound[..inbound.len().min(6)], user, e)); }
            }
        } }
    } }
    println!("BOUNDED keep_alive_holds_whatever_the_broker_sends cases={} bound=K in {:?} s x 2 versions x 6 inbound QoS 0 schedules x 3 user publish schedules over 5K seconds; driver services at reported times, broker answers at once", cases, ks);
    for f in &fails { println!("BOUNDED-FAIL keep_alive_holds_whatever_the_broker_sends {}", f); }
    assert!(fails.is_empty());
}
