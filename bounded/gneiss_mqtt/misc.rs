// E-B: small bounded checks of single functions outside both verifiers.
use crate::protocol::*;
use std::collections::VecDeque;

/// B-VD: sort_operation_deque (VecDeque::rotate_right + as_mut_slices().0.sort()) yields the ascending permutation for every
/// ring-buffer layout: capacity <= 16, every head offset (by pop_front/push_back cycling), every length, distinct and repeated keys.
#[test]
fn sort_operation_deque_all_small_layouts() {
    let mut cases = 0u64;
    for cap in 1..=16usize {
        for rot in 0..cap {
            for len in 0..=cap {
                for pattern in 0..4u64 {
                    let mut d: VecDeque<u64> = VecDeque::with_capacity(cap);
                    for i in 0..rot { d.push_back(i as u64); }
                    for _ in 0..rot { d.pop_front(); }           // head now at offset `rot` in the ring
                    let vals: Vec<u64> = (0..len as u64).map(|i| match pattern { 0 => len as u64 - i, 1 => (i * 7 + 3) % (len as u64 + 1), 2 => i, _ => (i * 5) % 3 }).collect();
                    for v in &vals { d.push_back(*v); }
                    let mut expect = vals.clone(); expect.sort();
                    verif_sort_operation_deque(&mut d);
                    let got: Vec<u64> = d.iter().copied().collect();
                    cases += 1;
                    if got != expect { println!("BOUNDED-FAIL sort_operation_deque_all_small_layouts cap={} rot={} vals={:?} got={:?}", cap, rot, vals, got); panic!("not sorted"); }
                }
            }
        }
    }
    println!("BOUNDED sort_operation_deque_all_small_layouts cases={} bound=capacity<=16 x every head offset x every length x 4 key patterns", cases);
}
