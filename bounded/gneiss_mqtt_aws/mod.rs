// verif_bounded (gneiss-mqtt-aws): E-B bounded checks for the custom-auth query string (C20). format!/write!-based code is
// outside both verifiers.
#![allow(dead_code, unused_imports)]
use crate::*;

fn pct_decode(s: &str) -> String { urlencoding::decode(s).map(|c| c.to_string()).unwrap_or_else(|_| s.to_string()) }

/// reference parser written from RFC 3986 query syntax: split at the first '?', then '&', then the first '='
fn parse(username: &str) -> (String, Vec<(String, String)>) {
    let (user, query) = match username.find('?') { Some(i) => (&username[..i], &username[i + 1..]), None => (username, "") };
    let mut params = Vec::new();
    if !query.is_empty() {
        for kv in query.split('&') {
            let (k, v) = match kv.find('=') { Some(i) => (&kv[..i], &kv[i + 1..]), None => (kv, "") };
            params.push((k.to_string(), v.to_string()));
        }
    }
    (user.to_string(), params)
}

fn strings(alphabet: &[char], max_len: usize) -> Vec<String> {
    let mut out = vec![String::new()];
    let mut frontier = vec![String::new()];
    for _ in 0..max_len {
        let mut next = Vec::new();
        for s in &frontier { for c in alphabet { let mut t = s.clone(); t.push(*c); next.push(t); } }
        out.extend(next.iter().cloned());
        frontier = next;
    }
    out
}

/// C20: "the CONNECT username is the user's username followed by a well-formed query string whose authorizer name, signature
/// and token key/value decode back to the configured values, the signature being percent-encoded exactly once whether it was
/// supplied raw or pre-encoded"
#[test]
fn custom_auth_query_string_round_trips() {
    let thorough = std::env::var("VERIF_TIER").map(|v| v == "thorough").unwrap_or(false);
    // raw base64 signatures use A-Z a-z 0-9 + / = ; pre-encoded ones contain %2B %2F %3D
    let raw_sigs = strings(&['A', '9', '+', '/', '='], if thorough { 4 } else { 3 });
    let n2 = if thorough { 2 } else { 1 };
    let names = strings(&['a', 'Z', '-', '_'], n2);
    let keys = strings(&['k', 'T', '-'], n2);
    let vals = strings(&['v', '1', '.', '-'], 2);
    let users = ["", "u", "user name"];
    let mut cases = 0u64;
    for sig in raw_sigs.iter().filter(|s| !s.is_empty()) {
        // pre-encoded forms: upper-case hex escapes (what urlencoding emits) and lower-case ones (RFC 3986 2.1: equivalent)
        for form in [0u8, 1, 2] {
            let pre_encoded = form != 0;
            let supplied = match form { 0 => sig.clone(), 1 => urlencoding::encode(sig).to_string(),
                _ => urlencoding::encode(sig).to_string().replace("%2B", "%2b").replace("%2F", "%2f").replace("%3D", "%3d") };
            if pre_encoded && !supplied.contains('%') { continue; }     // indistinguishable from raw; covered by the raw case
            for name in names.iter().filter(|s| !s.is_empty()) { for key in keys.iter().filter(|s| !s.is_empty()) { for val in vals.iter().filter(|s| !s.is_empty()) { for user in users {
                let mut b = AwsCustomAuthOptionsBuilder::new_signed(Some(name.as_str()), supplied.as_str(), key.as_str(), val.as_str());
                if !user.is_empty() { b.with_username(user); }
                b.with_password(b"pw");
                let built = b.build();
                cases += 1;
                let (u, params) = parse(built.username.as_str());
                let fail = |why: &str| { println!("BOUNDED-FAIL custom_auth_query_string_round_trips sig={:?} pre_encoded={} name={:?} key={:?} val={:?} user={:?} -> {:?} : {}", sig, pre_encoded, name, key, val, user, built.username, why); panic!("custom auth"); };
                if u != user { fail("username prefix changed"); }
                if params.len() != 3 { fail("not exactly three query parameters"); }
                if params[0].0 != "x-amz-customauthorizer-name" || pct_decode(&params[0].1) != *name { fail("authorizer name does not decode back"); }
                if params[1].0 != "x-amz-customauthorizer-signature" { fail("signature parameter name"); }
                // encoded exactly once: one decode gives the raw signature back, and the value on the wire has no raw + / =
                if pct_decode(&params[1].1) != *sig { fail("signature does not decode back (not encoded exactly once)"); }
                if params[1].1.contains('+') || params[1].1.contains('/') || params[1].1.contains('=') { fail("signature not percent-encoded"); }
                if pct_decode(&params[2].0) != *key || pct_decode(&params[2].1) != *val { fail("token key/value do not decode back"); }
                if built.password.as_deref() != Some(&b"pw"[..]) { fail("password not preserved"); }
            } } } }
        }
    }
    // unsigned: only the authorizer name
    for name in names.iter().filter(|s| !s.is_empty()) {
        let b = AwsCustomAuthOptionsBuilder::new_unsigned(Some(name.as_str()));
        let built = b.build();
        let (u, params) = parse(built.username.as_str());
        cases += 1;
        assert!(u.is_empty() && params.len() == 1 && params[0].0 == "x-amz-customauthorizer-name" && pct_decode(&params[0].1) == *name);
    }
    println!("BOUNDED custom_auth_query_string_round_trips cases={} bound=signatures<={} chars over {{A 9 + / =}} raw, pre-encoded with upper-case and with lower-case hex escapes x names<={} x token keys<={} x values<=2 x 3 usernames", cases, if thorough { 4 } else { 3 }, n2, n2);
}
