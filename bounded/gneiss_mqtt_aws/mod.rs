// verif_bounded (gneiss-mqtt-aws): E-B bounded checks for the custom-auth query string (C20). format!/write!-based code is
// outside both verifiers.
#![allow(dead_code, unused_imports)]
use crate::*;

fn pct_decode(s: &str) -> String { urlencoding::decode(s).map(|c| c.to_string()).unwrap_or_else(|_| s.to_string()) }

/// reference parser written from RFC 3986 query syntax: split at the first '?', then '&', then the first '='
fn parse(username: &str) -> (String, Vec<(String, String)>) {
    let (user, query) = match username.find('?') { Some(i) => (&username[..i], &username[i + 1..]), None => (username, "") };
    let mut params = Vec::new();
    if !query.is_empty() {
        for kv in query.split('&') {
            let (k, v) = match kv.find('=') { Some(i) => (&kv[..i], &kv[i + 1..]), None => (kv, "") };
            params.push((k.to_string(), v.to_string()));
        }
    }
    (user.to_string(), params)
}

fn strings(alphabet: &[char], max_len: usize) -> Vec<String> {
    let mut out = vec![String::new()];
    let mut frontier = vec![String::new()];
    for _ in 0..max_len {
        let mut next = Vec::new();
        for s in &frontier { for c in alphabet { let mut t = s.clone(); t.push(*c); next.push(t); } }
        out.extend(next.iter().cloned());
        frontier = next;
    }
    out
}

/// C20: "the CONNECT username is the user's username followed by a well-formed query string whose authorizer name, signature
/// and token key/value decode back to the configured values, the signature being percent-encoded exactly once whether it was
/// supplied raw or pre-encoded"
#[test]
fn custom_auth_query_string_round_trips() {
    let thorough = std::env::var("VERIF_TIER").map(|v| v == "thorough").unwrap_or(false);
    // raw base64 signatures use A-Z a-z 0-9 + / = ; pre-encoded ones contain %2B %2F %3D
    let raw_sigs = strings(&['A', '9', '+', '/', '='], if thorough { 4 } else { 3 });
    let n2 = if thorough { 2 } else { 1 };
    let names = strings(&['a', 'Z', '-', '_'], n2);
    let keys = strings(&['k', 'T', '-'], n2);
    let vals = strings(&['v', '1', '.', '-'], 2);
    let users = ["", "u", "user name"];
    let mut cases = 0u64;
    for sig in raw_sigs.iter().filter(|s| !s.is_empty()) {
        // pre-encoded forms: upper-case hex escapes (what urlencoding emits) and lower-case ones (RFC 3986 2.1: equivalent)
        for form in [0u8, 1, 2] {
            let pre_encoded = form != 0;
            let supplied = match form { 0 => sig.clone(), 1 => urlencoding::encode(sig).to_string(),
                _ => urlencoding::encode(sig).to_string().replace("%2B", "%2b").replace("%2F", "%2f").replace("%3D", "%3d") };
            if pre_encoded && !supplied.contains('%') { continue; }     // indistinguishable from raw; covered by the raw case
            for name in names.iter().filter(|s| !s.is_empty()) { for key in keys.iter().filter(|s| !s.is_empty()) { for val in vals.iter().filter(|s| !s.is_empty()) { for user in users {
                let mut b = AwsCustomAuthOptionsBuilder::new_signed(Some(name.as_str()), supplied.as_str(), key.as_str(), val.as_str());
                if !user.is_empty() { b.with_username(user); }
                b.with_password(b"pw");
                let built = b.build();
                cases += 1;
                let (u, params) = parse(built.username.as_str());
                let fail = |why: &str| { println!("BOUNDED-FAIL custom_auth_query_string_round_trips sig={:?} pre_encoded={} name={:?} key={:?} val={:?} user={:?} -> {:?} : {}", sig, pre_encoded, name, key, val, user, built.username, why); panic!("custom auth"); };
                if u != user { fail("username prefix changed"); }
                if params.len() != 3 { fail("not exactly three query parameters"); }
                if params[0].0 != "x-amz-customauthorizer-name" || pct_decode(&params[0].1) != *name { fail("authorizer name does not decode back"); }
                if params[1].0 != "x-amz-customauthorizer-signature" { fail("signature parameter name"); }
                // encoded exactly once: one decode gives the raw signature back, and the value on the wire has no raw + / =
                if pct_decode(&params[1].1) != *sig { fail("signature does not decode back (not encoded exactly once)"); }
                if params[1].1.contains('+') || params[1].1.contains('/') || params[1].1.contains('=') { fail("signature not percent-encoded"); }
                if pct_decode(&params[2].0) != *key || pct_decode(&params[2].1) != *val { fail("token key/value do not decode back"); }
                if built.password.as_deref() != Some(&b"pw"[..]) { fail("password not preserved"); }
            } } } }
        }
    }
    // unsigned: only the authorizer name
    for name in names.iter().filter(|s| !s.is_empty()) {
        let b = AwsCustomAuthOptionsBuilder::new_unsigned(Some(name.as_str()));
        let built = b.build();
        let (u, params) = parse(built.username.as_str());
        cases += 1;
        assert!(u.is_empty() && params.len() == 1 && params[0].0 == "x-amz-customauthorizer-name" && pct_decode(&params[0].1) == *name);
    }
    println!("BOUNDED custom_auth_query_string_round_trips cases={} bound=signatures<={} chars over {{A 9 + / =}} raw, pre-encoded with upper-case and with lower-case hex escapes x names<={} x token keys<={} x values<=2 x 3 usernames", cases, if thorough { 4 } else { 3 }, n2, n2);
}

/// C20: "always connect with a non-empty client id, generating a fresh one when the user supplied none and otherwise keeping the
/// user's, and preserve every other user-supplied connect option": the builder's final connect options for user options
/// {none at all, options without a client id, with an empty one, with a real one} x {custom auth with / without password}.
#[test]
fn aws_builder_final_client_id_is_never_empty() {
    use gneiss_mqtt::client::config::ConnectOptions;
    let mut cases = 0u64; let mut fails: Vec<String> = Vec::new();
    for with_pw in [false, true] { for variant in 0..4u8 { for keep_alive in [None, Some(60u16)] {
        cases += 1;
        let mut ab = AwsCustomAuthOptionsBuilder::new_unsigned(Some("authz"));
        ab.with_username("user");
        if with_pw { ab.with_password(b"pw"); }
        let mut builder = match AwsClientBuilder::new_direct_with_custom_auth("example.iot.us-east-1.amazonaws.com", ab.build(), None) { Ok(b) => b, Err(e) => { fails.push(format!("builder: {:?}", e)); continue; } };
        let mut cb = ConnectOptions::builder();
        if keep_alive.is_some() { cb.with_keep_alive_interval_seconds(keep_alive); }
        match variant { 2 => { cb.with_client_id(""); }, 3 => { cb.with_client_id("my-thing"); }, _ => {} }
        let user_options = cb.build();
        if variant != 0 { builder = builder.with_connect_options(user_options.clone()); }
        let effective = if variant != 0 { user_options } else { ConnectOptions::builder().build() };
        let fin = builder.build_final_connect_options(effective.clone());
        let what = format!("user options: {} keep_alive={:?} password={}", ["none", "no client id", "empty client id", "client id my-thing"][variant as usize], keep_alive, with_pw);
        match fin.client_id() {
            None => fails.push(format!("{}: final client id absent", what)),
            Some(id) if id.is_empty() => fails.push(format!("{}: final client id is empty", what)),
            Some(id) => {
                if variant == 3 && id != "my-thing" { fails.push(format!("{}: user's client id replaced by {:?}", what, id)); }
                if variant != 3 && id.len() != 36 { fails.push(format!("{}: generated client id {:?} is not a UUID", what, id)); }
            }
        }
    } } }
    println!("BOUNDED aws_builder_final_client_id_is_never_empty cases={} bound=user connect options {{none, without client id, empty client id, client id}} x keep-alive set/unset x custom auth with/without password", cases);
    for f in &fails { println!("BOUNDED-FAIL aws_builder_final_client_id_is_never_empty {}", f); }
    assert!(fails.is_empty());
}
