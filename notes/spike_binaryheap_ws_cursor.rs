#![feature(allocator_api)]
use vstd::prelude::*;
use std::collections::BinaryHeap;
use std::cmp::Reverse;
use vstd::multiset::Multiset;
verus! {
#[derive(Copy, Clone, PartialEq, Eq)]
pub struct Rec { pub id: u64, pub timeout: u64 }

#[verifier::external_type_specification]
#[verifier::external_body]
#[verifier::reject_recursive_types(T)]
#[verifier::reject_recursive_types(A)]
pub struct ExBinaryHeap<T, A: std::alloc::Allocator>(BinaryHeap<T, A>);

#[verifier::external_type_specification]
pub struct ExReverse<T>(Reverse<T>);

pub uninterp spec fn heap_view<T, A: std::alloc::Allocator>(h: BinaryHeap<T, A>) -> Multiset<T>;

struct MessageCursor { data: Vec<u8>, index: usize }
impl MessageCursor {
    fn read(&mut self, dest: &mut [u8]) -> (r: usize)
        requires old(self).index <= old(self).data@.len()
        ensures r <= old(dest)@.len(), final(self).index == old(self).index + r, final(dest)@.subrange(0, r as int) == old(self).data@.subrange(old(self).index as int, old(self).index + r)
    {
        if self.index < self.data.len() {
            let amount = usize::min(self.data.len() - self.index, dest.len());
            if amount > 0 {
                let dest_slice = &mut dest[..amount];
                let source_slice = &self.data[..amount];

                dest_slice.copy_from_slice(source_slice);

                self.index += amount;

                return amount;
            }
        }

        0
    }
}
}
fn main(){}
