#!/usr/bin/env python3
"""Prototype extractor: pull named items from rust source by brace matching, strip log macros."""
import re, sys

def strip_comments(src):
    # keep length; replace comments by spaces (naive but handles // and /* */, respects strings)
    out=[]; i=0; n=len(src)
    while i<n:
        c=src[i]
        if c=='"':
            j=i+1
            while j<n and src[j]!='"':
                if src[j]=='\\': j+=1
                j+=1
            out.append(src[i:j+1]); i=j+1
        elif src.startswith('//',i):
            j=src.find('\n',i); j = n if j<0 else j
            out.append(' '*(j-i)); i=j
        elif src.startswith('/*',i):
            j=src.find('*/',i)+2
            out.append(re.sub(r'[^\n]',' ',src[i:j])); i=j
        elif c=="'" :
            # char literal or lifetime
            m=re.match(r"'(\\.|[^\\'])'",src[i:])
            if m: out.append(m.group(0)); i+=len(m.group(0))
            else: out.append(c); i+=1
        else:
            out.append(c); i+=1
    return ''.join(out)

def match_brace(src, i):
    assert src[i]=='{'
    d=0; n=len(src)
    while i<n:
        c=src[i]
        if c=='"':
            j=i+1
            while src[j]!='"':
                if src[j]=='\\': j+=1
                j+=1
            i=j+1; continue
        if c=="'":
            m=re.match(r"'(\\.|[^\\'])'",src[i:])
            if m: i+=len(m.group(0)); continue
        if c=='{': d+=1
        elif c=='}':
            d-=1
            if d==0: return i
        i+=1
    raise Exception("unbalanced")

def find_item(src, kind, name):
    # kind: fn|struct|enum
    pat = re.compile(r'(?m)^[ \t]*((?:#\[[^\]]*\]\s*)*)(pub(?:\([a-z]+\))?\s+)?'+kind+r'\s+'+re.escape(name)+r'\b')
    m = pat.search(src)
    if not m: raise Exception("not found: %s %s"%(kind,name))
    start = m.start()
    i = src.find('{', m.end())
    semi = src.find(';', m.end())
    if kind=='struct' and semi!=-1 and semi<i: return src[start:semi+1]
    j = match_brace(src, i)
    return src[start:j+1]

LOG = re.compile(r'(?s)\b(debug|info|warn|error|trace)!\s*\(')
def strip_logs(body):
    out=[]; i=0
    while True:
        m=LOG.search(body,i)
        if not m: out.append(body[i:]); break
        out.append(body[i:m.start()])
        # find matching paren
        j=m.end()-1; d=0
        while True:
            c=body[j]
            if c=='"':
                k=j+1
                while body[k]!='"':
                    if body[k]=='\\': k+=1
                    k+=1
                j=k+1; continue
            if c=='(': d+=1
            elif c==')':
                d-=1
                if d==0: break
            j+=1
        j+=1
        while body[j] in ' \t': j+=1
        if body[j]==';': j+=1
        i=j
    return ''.join(out)

if __name__=='__main__':
    path=sys.argv[1]
    src=strip_comments(open(path).read())
    for spec in sys.argv[2:]:
        kind,name=spec.split(':')
        print(strip_logs(find_item(src,kind,name)))
        print()
