use vstd::prelude::*;
use vstd::std_specs::cmp::*;
use core::cmp::Ordering;
verus! {
#[derive(Copy, Clone, PartialEq, Eq)]
pub struct Instant { pub nanos: u128 }
#[derive(Copy, Clone, PartialEq, Eq)]
pub struct Duration { pub nanos: u128 }

impl PartialOrdSpecImpl for Instant {
    open spec fn obeys_partial_cmp_spec() -> bool { true }
    open spec fn partial_cmp_spec(&self, other: &Instant) -> Option<Ordering> {
        if self.nanos < other.nanos { Some(Ordering::Less) } else if self.nanos == other.nanos { Some(Ordering::Equal) } else { Some(Ordering::Greater) }
    }
}
impl PartialOrd for Instant {
    fn partial_cmp(&self, other: &Instant) -> (r: Option<Ordering>) {
        if self.nanos < other.nanos { Some(Ordering::Less) } else if self.nanos == other.nanos { Some(Ordering::Equal) } else { Some(Ordering::Greater) }
    }
}

fn fold_timepoint(base: &Option<Instant>, new: &Instant) -> (r: Option<Instant>)
    ensures r is Some,
        match *base { Some(b) => r.unwrap().nanos == if b.nanos < new.nanos { b.nanos } else { new.nanos }, None => r.unwrap() == *new }
{
    if let Some(base_timepoint) = &base {
        if base_timepoint < new {
            return *base;
        }
    }

    Some(*new)
}
}
fn main(){}
