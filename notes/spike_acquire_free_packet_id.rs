use vstd::prelude::*;
use std::collections::*;
use std::collections::hash_map;

verus! {

pub struct PS {
    pub allocated_packet_ids: HashMap<u16, u64>,
    pub next_packet_id: u16,
    pub user_operation_queue: VecDeque<u64>,
}

pub enum GErr { Internal }

pub open spec fn succ(x: u16) -> u16 { if x == u16::MAX { 1 } else { (x + 1) as u16 } }
// cyclic distance from a to b going forward in 1..=65535
pub open spec fn dist(a: u16, b: u16) -> int { if a <= b { b - a } else { 65535 - a + b } }

impl PS {
    pub open spec fn wf(&self) -> bool {
        1 <= self.next_packet_id
    }

    fn acquire_free_packet_id(&mut self, operation_id: u64) -> (r: Result<u16, GErr>)
        requires old(self).wf(),
        ensures final(self).wf(),
            match r {
                Ok(id) => id != 0 && !old(self).allocated_packet_ids@.contains_key(id)
                    && final(self).allocated_packet_ids@ == old(self).allocated_packet_ids@.insert(id, operation_id),
                Err(_) => final(self).allocated_packet_ids@ == old(self).allocated_packet_ids@
                    && (forall|k: u16| 1 <= k ==> old(self).allocated_packet_ids@.contains_key(k)),
            }
    {
        let start_id = self.next_packet_id;
        let mut check_id = start_id;

        loop
            invariant
                1 <= start_id, 1 <= check_id,
                self.next_packet_id == check_id,
                self.allocated_packet_ids@ == old(self).allocated_packet_ids@,
                forall|k: u16| 1 <= k && dist(start_id, k) < dist(start_id, check_id) ==> old(self).allocated_packet_ids@.contains_key(k),
                check_id == start_id ==> true,
            decreases 65535 - dist(start_id, check_id),
        {
            if self.next_packet_id == u16::MAX {
                self.next_packet_id = 1;
            } else {
                self.next_packet_id += 1;
            }

            if let hash_map::Entry::Vacant(e) = self.allocated_packet_ids.entry(check_id) {
                e.insert(operation_id);
                return Ok(check_id);
            }

            if self.next_packet_id == start_id {
                return Err(GErr::Internal);
            }

            check_id = self.next_packet_id;
        }
    }
}

}
fn main() {}
