use crate::mqtt::*;
use crate::decode::*;

fn stub_format(_: core::fmt::Arguments<'_>) -> String { String::new() }

#[kani::proof]
#[kani::stub(alloc::fmt::format, stub_format)]
fn unsuback_reason_code_table() {
    let v: u8 = kani::any();
    let r = UnsubackReasonCode::try_from(v);
    let legal = v == 0 || v == 17 || v == 128 || v == 131 || v == 135 || v == 143 || v == 145;
    match r {
        Ok(c) => { assert!(c as u8 == v); assert!(legal); }
        Err(_) => { assert!(!legal); }
    }
}

#[kani::proof]
#[kani::stub(alloc::fmt::format, stub_format)]
fn puback_reason_code_table() {
    let v: u8 = kani::any();
    let r = PubackReasonCode::try_from(v);
    let legal = v == 0 || v == 16 || v == 128 || v == 131 || v == 135 || v == 144 || v == 145 || v == 151 || v == 153;
    match r {
        Ok(c) => { assert!(c as u8 == v); assert!(legal); }
        Err(_) => { assert!(!legal); }
    }
}

use crate::protocol::*;
use crate::client::*;
use crate::client::config::*;
use std::time::*;
use std::sync::atomic::{AtomicU32, Ordering};
use std::sync::Arc;

fn fixed_now() -> Instant { unsafe { core::mem::zeroed() } }

#[kani::proof]
#[kani::stub(alloc::fmt::format, stub_format)]
#[kani::unwind(4)]
fn engine_reset_resolves_once() {
    let base: Instant = fixed_now();
    let config = ProtocolStateConfig {
        connect_options: ConnectOptions::builder().build(),
        base_timestamp: base,
        offline_queue_policy: OfflineQueuePolicy::PreserveAll,
        ping_timeout: Duration::from_millis(30000),
        outbound_alias_resolver: None,
        protocol_mode: ProtocolMode::Mqtt5,
        post_reconnect_queue_drain_policy: PostReconnectQueueDrainPolicy::None,
        max_interrupted_retries: None,
    };
    let mut ps = ProtocolState::new(config);
    let count = Arc::new(AtomicU32::new(0));
    let c2 = count.clone();
    let packet = Box::new(MqttPacket::Publish(PublishPacket { topic: String::from("a"), qos: QualityOfService::AtLeastOnce, ..Default::default() }));
    let opts = PublishOptionsInternal { options: PublishOptions::builder().build(), response_handler: Some(Box::new(move |_r| { c2.fetch_add(1, Ordering::SeqCst); Ok(()) })) };
    ps.handle_user_event(UserEventContext { event: UserEvent::Publish(packet, opts), current_time: base });
    ps.reset(&base);
    assert!(count.load(Ordering::SeqCst) == 1);
    assert!(ps.operations.len() == 0);
}
