use vstd::prelude::*;
use vstd::string::*;
verus! {
// byte length of a string value, as a function of its char view (UTF-8 length); uninterpreted
pub uninterp spec fn blen(s: Seq<char>) -> nat;
pub assume_specification [std::string::String::len] (s: &String) -> (r: usize) ensures r == blen(s@);
// bridge: vstd's str::len talks about spec_bytes(); tie it to blen
pub broadcast axiom fn ax_blen(s: &str) ensures #[trigger] s.spec_bytes().len() == blen(s@);

pub struct UserProperty { pub name: String, pub value: String }
pub struct E { pub k: u8 }
pub open spec fn up_ok(p: UserProperty) -> bool { blen(p.name@) <= 65535 && blen(p.value@) <= 65535 }

pub fn validate_string_length(value: &str) -> (r: Result<(), E>)
    ensures r is Ok <==> blen(value@) <= 65535
{
    broadcast use ax_blen;
    if value.len() > 65535 {
        return Err(E{k:1});
    }
    Ok(())
}
pub fn validate_user_properties(properties: &Option<Vec<UserProperty>>) -> (r: Result<(), E>)
    ensures r is Ok <==> (properties matches Some(ps) ==> forall|i: int| 0 <= i < ps@.len() ==> up_ok(#[trigger] ps@[i]))
{
    if let Some(props) = properties {
        for property in it: props
            invariant forall|i: int| 0 <= i < it.index@ ==> up_ok(#[trigger] props@[i])
        {
            validate_string_length(property.name.as_str())?;
            validate_string_length(property.name.as_str())?;
        }
    }
    Ok(())
}
pub fn compute_user_properties_length(properties: &Option<Vec<UserProperty>>) -> usize
    requires properties matches Some(ps) ==> ps@.len() <= 100000 && forall|i: int| 0 <= i < ps@.len() ==> up_ok(#[trigger] ps@[i])
{
    let mut total = 0;
    if let Some(props) = properties {
        let property_count = props.len();
        total += property_count * 5;
        for property in it: props
            invariant total <= 5 * props@.len() + it.index@ * 131070, props@.len() <= 100000,
                forall|i: int| 0 <= i < props@.len() ==> up_ok(#[trigger] props@[i])
        {
            total += property.name.len();
            total += property.value.len();
        }
    }
    total
}
}
fn main(){}
