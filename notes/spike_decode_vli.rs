use vstd::prelude::*;
verus! {
pub enum R<'a> { Insufficient, Value(u32, &'a [u8]) }

pub open spec fn vli_val(s: Seq<u8>, n: nat) -> nat
    decreases n
{
    if n == 0 { 0 } else { vli_val(s, (n-1) as nat) + ((s[n-1] & 0x7F) as nat) * pow128((n-1) as nat) }
}
pub open spec fn pow128(n: nat) -> nat decreases n { if n == 0 { 1 } else { 128 * pow128((n-1) as nat) } }

pub fn decode_vli(buffer: &[u8]) -> (r: Result<R, u8>)
    ensures
        match r {
            Ok(R::Insufficient) => buffer@.len() < 4 && forall|j: int| 0 <= j < buffer@.len() ==> buffer@[j] & 0x80 != 0,
            Ok(R::Value(v, rest)) => exists|n: int| 1 <= n <= 4 && n <= buffer@.len() && buffer@[n-1] & 0x80 == 0
                && (forall|j: int| 0 <= j < n-1 ==> buffer@[j] & 0x80 != 0) && rest@ == buffer@.subrange(n, buffer@.len() as int),
            Err(_) => buffer@.len() >= 4 && forall|j: int| 0 <= j < 4 ==> buffer@[j] & 0x80 != 0,
        }
{
    let mut value: u32 = 0;
    let mut needs_data: bool;
    let mut shift: u32 = 0;
    let data_len = buffer.len();

    for i in 0..4
        invariant
            data_len == buffer@.len(),
            shift == 7 * i,
            forall|j: int| 0 <= j < i ==> buffer@[j] & 0x80 != 0,
            i <= data_len || i == 0,
    {
        if i >= data_len {
            return Ok(R::Insufficient);
        }

        let byte = buffer[i];
        value |= ((byte & 0x7F) as u32) << shift;
        shift += 7;

        needs_data = (byte & 0x80) != 0;
        if !needs_data {
            return Ok(R::Value(value, &buffer[(i + 1)..]));
        }
    }
    Err(2)
}
}
fn main(){}
