#![feature(allocator_api)]
use vstd::prelude::*;
use vstd::std_specs::hash::*;
use std::collections::*;
use std::hash::*;
use std::borrow::Borrow;
verus! {
pub uninterp spec fn key_of<K, Q: ?Sized>(q: &Q) -> K;
pub broadcast axiom fn ax_key_of_same<K>(k: &K)
    ensures #[trigger] key_of::<K, K>(k) == *k;

pub assume_specification<'a, 'b, K, V, S, A, Q> [std::collections::HashMap::<K, V, S, A>::get_mut::<Q>] (m: &'a mut HashMap<K, V, S, A>, k: &'b Q) -> (r: Option<&'a mut V>)
    where K: Borrow<Q> + Hash + Eq, Q: Hash + Eq + ?Sized, S: BuildHasher, A: std::alloc::Allocator
    ensures
        obeys_key_model::<K>() && builds_valid_hashers::<S>() ==> match r {
            Some(v) => old(m)@.contains_key(key_of::<K, Q>(k)) && *v == old(m)@[key_of::<K, Q>(k)] && final(m)@ == old(m)@.insert(key_of::<K, Q>(k), *final(v)),
            None => !old(m)@.contains_key(key_of::<K, Q>(k)) && final(m)@ == old(m)@,
        };

pub struct Op { pub a: u32, pub b: bool }
pub struct PS { pub ops: HashMap<u64, Op>, pub n: u32 }
impl PS {
    fn set_flag(&mut self, id: u64, value: bool)
        ensures
            final(self).n == old(self).n,
            old(self).ops@.contains_key(id) ==> final(self).ops@ == old(self).ops@.insert(id, Op { a: old(self).ops@[id].a, b: value }),
            !old(self).ops@.contains_key(id) ==> final(self).ops@ == old(self).ops@,
    {
        broadcast use ax_key_of_same;
        if let Some(operation) = self.ops.get_mut(&id) {
            operation.b = value;
        }
    }
}
}
fn main(){}
